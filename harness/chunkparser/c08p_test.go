package chunkparser

// C08 (chunk parser part) – Parse terminates for every body, including boxes with size < 8 and sizes that wrap the offset.

import (
	"fmt"
	"testing"
	"time"

	"verif.local/vlib/rep"
)

func TestVerifC08P(t *testing.T) {
	r := rep.New("C08")
	r.Rule("chunk parser: case = (byte stream with hostile size fields / random garbage, read partition); class = (size class, position, partition); counted when Parse returned within the watchdog")
	defer func() { r.Done(); t.Log(r.Summary()) }()
	base := vfBuild([]vfBox{{"styp", 4}, {"moof", 8}, {"mdat", 5}, {"moof", 4}, {"mdat", 3}, {"free", 2}}, 3)
	offs := []int{0, 12, 28, 41, 53, 64}
	sizes := []uint32{0, 1, 2, 3, 4, 5, 6, 7, 1 << 20, 1 << 28, 0x7fffffff, 0x80000000, 0xffffffff, 0xfffffffe, 0xfffffff8, 0xffffffd8, 0xffffffc0, 0xffffff00, 0x80000000 - 1}
	n := 0
	run := func(name string, d []byte, cuts []int, cls string) {
		n++
		if !r.Begin(n, name) {
			return
		}
		rd := &vfReader{data: d, cuts: cuts, failAt: -1}
		res := vfParse(rd, 32, -1, 10*time.Second)
		r.Eval(1)
		if !res.finished {
			r.Violation("chunkparser:no-termination", map[string]any{"stream": name, "hex": fmt.Sprintf("%x", d[:min(len(d), 80)]), "cuts": cuts})
			return
		}
		r.Class("chunkparser|" + cls)
	}
	for oi, o := range offs {
		for _, sz := range sizes {
			d := append([]byte{}, base...)
			d[o], d[o+1], d[o+2], d[o+3] = byte(sz>>24), byte(sz>>16), byte(sz>>8), byte(sz)
			all := make([]int, 0, len(d))
			for i := 1; i < len(d); i++ {
				all = append(all, i)
			}
			run(fmt.Sprintf("size@%d=%#x", o, sz), d, nil, fmt.Sprintf("size=%#x|pos=%d|whole", sz, oi))
			run(fmt.Sprintf("size@%d=%#x bytewise", o, sz), d, all, fmt.Sprintf("size=%#x|pos=%d|bytewise", sz, oi))
		}
	}
	rng := r.Rand(88)
	for i := 0; i < r.Pick(3000, 200000); i++ {
		l := 1 + rng.Intn(200)
		d := make([]byte, l)
		for j := range d {
			d[j] = byte(rng.Intn(256))
		}
		run(fmt.Sprintf("random%d", i), d, nil, fmt.Sprintf("random|len<%d", (l/50+1)*50))
	}
	// honest but large boxes (a long GOP, a big thumbnail track): one mdat of 5, 17 and 40 MiB, read in 64 KiB pieces, small initial buffer
	for _, mib := range []int{5, 17, 40}[:r.Pick(2, 3)] {
		body := mib << 20
		d := make([]byte, 0, body+64)
		d = append(d, vfBuild([]vfBox{{"styp", 4}, {"moof", 8}}, 1)...)
		d = append(d, byte(uint32(body+8)>>24), byte(uint32(body+8)>>16), byte(uint32(body+8)>>8), byte(uint32(body+8)), 'm', 'd', 'a', 't')
		d = append(d, make([]byte, body)...)
		var cuts []int
		for c := 65536; c < len(d); c += 65536 {
			cuts = append(cuts, c)
		}
		run(fmt.Sprintf("mdat of %d MiB", mib), d, cuts, fmt.Sprintf("large-box|%dMiB", mib))
	}
	r.Sample(map[string]any{"kind": "hostile size field", "example": fmt.Sprintf("%x with size field at offset 12 set to 0", base[:32])})
	if r.NViolations() > 0 {
		t.Fail()
	}
}
