package chunkparser

// C18 – chunk parser output does not depend on how the bytes arrive.
// Reference model: independent top-level box walk (vfExpect); the real parser is run over
// every/seeded partitions of the stream into reads, buffer sizes, EOF styles, injected errors.

import (
	"bytes"
	"fmt"
	"os"
	"sort"
	"sync/atomic"
	"testing"
	"time"

	"verif.local/vlib/rep"
)

const vfWatchdog = 5 * time.Second

type vfCase struct {
	name    string
	data    []byte
	cuts    []int
	eofWith bool
	initBuf int
	cbFail  int
	rdFail  int
}

// after this many parses that did not terminate the verdict is decided; further cases would only wait for the watchdog
var vfNoTermination int32

func vfCheckCase(r *rep.R, c vfCase) {
	if atomic.LoadInt32(&vfNoTermination) >= 6 {
		r.Add("cases_not_run_after_repeated_no_termination", 1)
		return
	}
	rd := &vfReader{data: c.data, cuts: c.cuts, eofWith: c.eofWith, failAt: c.rdFail, failErr: errVfRead}
	run := vfParse(rd, c.initBuf, c.cbFail, vfWatchdog)
	r.Eval(1)
	ends, moovAt, wf := vfExpect(c.data)
	detail := func(extra map[string]any) map[string]any {
		m := map[string]any{"stream": c.name, "len": len(c.data), "cuts": c.cuts, "eof_with_data": c.eofWith, "init_buf": c.initBuf,
			"callback_fail_at": c.cbFail, "read_fail_at": c.rdFail, "hex_prefix": fmt.Sprintf("%x", c.data[:min(len(c.data), 96)])}
		for k, v := range extra {
			m[k] = v
		}
		return m
	}
	if run.slow {
		r.Add("finished_only_in_grace_period", 1)
	}
	if !run.finished {
		atomic.AddInt32(&vfNoTermination, 1)
		r.Violation("no-termination", detail(map[string]any{"watchdog_s": vfWatchdog.Seconds(), "well_formed_sizes": wf}))
		return
	}
	// concatenation: always a prefix of the input; the whole input when no error was injected and sizes are sane
	var cat []byte
	for _, cb := range run.cbs {
		cat = append(cat, cb.data...)
	}
	if !bytes.HasPrefix(c.data, cat) {
		r.Violation("concat-not-prefix-of-input", detail(map[string]any{"delivered": len(cat)}))
		return
	}
	if !wf {
		// impossible size fields: only termination and the prefix property are claimed
		return
	}
	limit := len(c.data)
	if c.rdFail >= 0 && c.rdFail < limit {
		limit = c.rdFail
	}
	// expected callbacks (restricted to what can be complete before an injected read error)
	var exp []int
	for _, e := range ends {
		if c.rdFail >= 0 && c.rdFail < len(c.data) {
			// with a read error the tail is not delivered; complete mdats that ended at or before the failure are
			if e <= c.rdFail && !(e == len(c.data) && !vfEndsWithMdat(c.data)) {
				exp = append(exp, e)
			}
			continue
		}
		exp = append(exp, e)
	}
	if c.cbFail >= 0 && c.cbFail < len(exp) {
		exp = exp[:c.cbFail+1]
	}
	// error propagation
	switch {
	case c.cbFail >= 0 && c.cbFail < len(exp):
		if run.err != errVfCallback {
			r.Violation("callback-error-not-returned", detail(map[string]any{"err": fmt.Sprint(run.err)}))
			return
		}
	case c.rdFail >= 0 && c.rdFail < len(c.data):
		if run.err != errVfRead {
			r.Violation("read-error-not-returned", detail(map[string]any{"err": fmt.Sprint(run.err), "callbacks": len(run.cbs)}))
			return
		}
	default:
		if run.err != nil {
			r.Violation("unexpected-error", detail(map[string]any{"err": fmt.Sprint(run.err)}))
			return
		}
	}
	got := make([]int, 0, len(run.cbs))
	off := 0
	for _, cb := range run.cbs {
		if int(cb.start) != off {
			r.Violation("start-offset-wrong", detail(map[string]any{"start": cb.start, "want": off}))
			return
		}
		off += len(cb.data)
		got = append(got, off)
	}
	if c.rdFail >= 0 && c.rdFail < len(c.data) {
		// callbacks must be a prefix of the expected list up to the failure (the parser may stop earlier only
		// if the mdat was not yet complete); every complete mdat before the failure must have been delivered
		if fmt.Sprint(got) != fmt.Sprint(exp) {
			// tolerate: an mdat ending exactly at failAt is delivered (it is complete) – already in exp
			r.Violation("callbacks-before-read-error-wrong", detail(map[string]any{"got_ends": got, "want_ends": exp}))
		}
		return
	}
	if fmt.Sprint(got) != fmt.Sprint(exp) {
		sig := "callback-boundaries-wrong"
		if len(got) < len(exp) {
			sig = "callback-missing"
		} else if len(got) > len(exp) {
			sig = "callback-extra"
		}
		r.Violation(sig, detail(map[string]any{"got_ends": got, "want_ends": exp}))
		return
	}
	// delivered as soon as complete: when the callback for an mdat end is made the reader has handed out no byte beyond it
	for i, cb := range run.cbs {
		if cb.consumed > got[i] {
			r.Violation("delivered-late-read-ahead", detail(map[string]any{"callback": i, "end": got[i], "reader_consumed": cb.consumed}))
			return
		}
	}
	// init flag
	for i, cb := range run.cbs {
		start := got[i] - len(cb.data)
		if moovAt < 0 && cb.isInit {
			r.Violation("init-flag-set-without-moov", detail(map[string]any{"callback": i}))
			return
		}
		if moovAt >= 0 && moovAt+8 <= got[i] && moovAt >= start && !cb.isInit {
			r.Violation("init-flag-missing-with-moov", detail(map[string]any{"callback": i, "moov_at": moovAt}))
			return
		}
		if moovAt >= 0 && got[i] <= moovAt && cb.isInit {
			r.Violation("init-flag-set-before-moov", detail(map[string]any{"callback": i, "moov_at": moovAt}))
			return
		}
	}
}

func vfEndsWithMdat(data []byte) bool {
	ends, _, _ := vfExpect(data)
	if len(ends) == 0 {
		return false
	}
	// recompute: last end is an mdat end iff walking reaches len(data) with an mdat
	pos := 0
	last := ""
	for pos+8 <= len(data) {
		size := int(uint32(data[pos])<<24 | uint32(data[pos+1])<<16 | uint32(data[pos+2])<<8 | uint32(data[pos+3]))
		if size < 8 || pos+size > len(data) {
			return false
		}
		last = string(data[pos+4 : pos+8])
		pos += size
	}
	return pos == len(data) && last == "mdat"
}

func vfBoundarySet(data []byte) []int {
	set := map[int]bool{}
	pos := 0
	for pos+8 <= len(data) {
		size := int(uint32(data[pos])<<24 | uint32(data[pos+1])<<16 | uint32(data[pos+2])<<8 | uint32(data[pos+3]))
		for _, p := range []int{pos, pos + 4, pos + 8} {
			for d := -1; d <= 1; d++ {
				if p+d > 0 && p+d < len(data) {
					set[p+d] = true
				}
			}
		}
		if size < 8 || pos+size > len(data) {
			break
		}
		pos += size
	}
	out := make([]int, 0, len(set))
	for k := range set {
		out = append(out, k)
	}
	sort.Ints(out)
	return out
}

func TestVerifC18(t *testing.T) {
	r := rep.New("C18")
	r.Rule("case = (stream, cut set, EOF style, initial buffer, injected callback/read error); class = (stream shape, #cuts bucket, " +
		"EOF style, buffer class, error kind); a class counts only when the callback list was compared with the reference box walk")
	r.Assume("reference walk: top-level boxes only (what the statement speaks about); streams with a size field < 8 are judged for termination and prefix-concatenation only")
	r.Assume("trusted: Go runtime; termination watchdog 5 s per parse (inputs <= 64 kB, microseconds expected)")
	defer func() { r.Done(); t.Log(r.Summary()) }()

	types := []string{"ftyp", "styp", "moov", "moof", "mdat", "emsg", "sidx", "prft", "free"}
	// --- stream shapes
	type shape struct {
		name  string
		boxes []vfBox
	}
	var shapes []shape
	mk := func(name string, bs ...vfBox) { shapes = append(shapes, shape{name, bs}) }
	mk("init", vfBox{"ftyp", 4}, vfBox{"moov", 12})
	mk("chunk", vfBox{"moof", 8}, vfBox{"mdat", 5})
	mk("styp-chunk", vfBox{"styp", 4}, vfBox{"moof", 8}, vfBox{"mdat", 5})
	mk("2chunks", vfBox{"styp", 4}, vfBox{"moof", 8}, vfBox{"mdat", 3}, vfBox{"moof", 8}, vfBox{"mdat", 0})
	mk("emsg-sidx-prft", vfBox{"styp", 0}, vfBox{"prft", 3}, vfBox{"emsg", 9}, vfBox{"sidx", 7}, vfBox{"moof", 4}, vfBox{"mdat", 6})
	mk("init+chunks", vfBox{"ftyp", 4}, vfBox{"moov", 10}, vfBox{"moof", 8}, vfBox{"mdat", 4}, vfBox{"moof", 8}, vfBox{"mdat", 2})
	mk("chunk+tail", vfBox{"moof", 8}, vfBox{"mdat", 5}, vfBox{"free", 3})
	mk("mdat-only", vfBox{"mdat", 0})
	mk("mdat-mdat", vfBox{"mdat", 1}, vfBox{"mdat", 1})
	mk("no-mdat", vfBox{"styp", 4}, vfBox{"moof", 8})
	mk("moov-after-mdat", vfBox{"moof", 4}, vfBox{"mdat", 2}, vfBox{"moov", 4}, vfBox{"moof", 4}, vfBox{"mdat", 2})
	rng := r.Rand(1)
	nRand := r.Pick(40, 600)
	for i := 0; i < nRand; i++ {
		n := 1 + rng.Intn(12)
		bs := make([]vfBox, n)
		for j := range bs {
			ty := types[rng.Intn(len(types))]
			if rng.Intn(3) == 0 {
				ty = "mdat"
			}
			pl := rng.Intn(6)
			if rng.Intn(10) == 0 {
				pl = rng.Intn(3000)
			}
			bs[j] = vfBox{ty, pl}
		}
		shapes = append(shapes, shape{fmt.Sprintf("rand%d", i), bs})
	}
	bufs := func(n int) []int { return []int{0, 1, 8, 9, 1024, n, n + 100} }
	bufClass := func(b, n int) string {
		switch {
		case b == 0:
			return "0"
		case b < 8:
			return "<8"
		case b < n:
			return "<len"
		case b == n:
			return "=len"
		}
		return ">len"
	}
	caseNo := 0
	run := func(c vfCase, shapeName, errKind string) {
		caseNo++
		if !r.Begin(caseNo, c.name) {
			return
		}
		nb := "0"
		switch {
		case len(c.cuts) == 0:
		case len(c.cuts) <= 3:
			nb = "1-3"
		case len(c.cuts) < len(c.data)-1:
			nb = "many"
		default:
			nb = "bytewise"
		}
		vfCheckCase(r, c)
		r.Class(fmt.Sprintf("%s|cuts=%s|eof=%v|buf=%s|err=%s", shapeName, nb, c.eofWith, bufClass(c.initBuf, len(c.data)), errKind))
	}
	sampled := false
	for si, sh := range shapes {
		data := vfBuild(sh.boxes, byte(si))
		B := vfBoundarySet(data)
		small := si < 11
		var cutsets [][]int
		cutsets = append(cutsets, nil) // everything at once (bounded by what the parser asks for)
		all := make([]int, 0, len(data))
		for i := 1; i < len(data); i++ {
			all = append(all, i)
		}
		cutsets = append(cutsets, all) // one byte at a time
		cutsets = append(cutsets, B)   // all boundaries
		if small {
			// exhaustive: all subsets of the boundary set of size 1 and 2 (and 3 in the thorough tier)
			for i := range B {
				cutsets = append(cutsets, []int{B[i]})
				for j := i + 1; j < len(B); j++ {
					cutsets = append(cutsets, []int{B[i], B[j]})
					if r.Thorough() {
						for k := j + 1; k < len(B); k++ {
							cutsets = append(cutsets, []int{B[i], B[j], B[k]})
						}
					}
				}
			}
		}
		for k := 0; k < r.Pick(6, 40); k++ {
			var cs []int
			p := 0.05 + rng.Float64()*0.5
			for i := 1; i < len(data); i++ {
				if rng.Float64() < p {
					cs = append(cs, i)
				}
			}
			cutsets = append(cutsets, cs)
		}
		for ci, cs := range cutsets {
			for _, eof := range []bool{false, true} {
				bl := bufs(len(data))
				b := bl[(ci+si)%len(bl)]
				if ci < 3 {
					for _, bb := range bl {
						run(vfCase{sh.name, data, cs, eof, bb, -1, -1}, vfShapeName(sh.name), "none")
					}
				} else {
					run(vfCase{sh.name, data, cs, eof, b, -1, -1}, vfShapeName(sh.name), "none")
				}
			}
			if !sampled && ci == 3 {
				sampled = true
				r.Sample(map[string]any{"stream": sh.name, "boxes": fmt.Sprint(sh.boxes), "cuts": cs, "expected_callback_ends": fmt.Sprint(vfFirst(vfExpect(data)))})
			}
		}
		// injected errors: callback k fails; reader fails at offset x
		ends, _, _ := vfExpect(data)
		for k := 0; k < len(ends) && k < 4; k++ {
			for _, cs := range [][]int{nil, all, B} {
				run(vfCase{sh.name, data, cs, false, 16, k, -1}, vfShapeName(sh.name), "callback")
			}
		}
		for _, x := range B {
			run(vfCase{sh.name, data, nil, false, 8, -1, x}, vfShapeName(sh.name), "read")
			run(vfCase{sh.name, data, all, false, 0, -1, x}, vfShapeName(sh.name), "read")
		}
		run(vfCase{sh.name, data, nil, false, 8, -1, 0}, vfShapeName(sh.name), "read")
		// truncation at every offset of small streams / seeded offsets of big ones
		var truncs []int
		if small || len(data) < 80 {
			for x := 0; x < len(data); x++ {
				truncs = append(truncs, x)
			}
		} else {
			for k := 0; k < 12; k++ {
				truncs = append(truncs, rng.Intn(len(data)))
			}
		}
		for _, x := range truncs {
			run(vfCase{sh.name + "/trunc", data[:x], nil, x%2 == 0, 8, -1, -1}, vfShapeName(sh.name), "truncated")
			run(vfCase{sh.name + "/trunc", data[:x], all[:max(0, min(len(all), x-1))], false, 0, -1, -1}, vfShapeName(sh.name), "truncated")
		}
	}
	// real files from the repository's testdata
	for _, f := range []string{"testdata/video_init.mp4", "testdata/audio_init.mp4", "testdata/3_chunked.m4s"} {
		data, err := os.ReadFile(f)
		if err != nil {
			t.Fatalf("read %s: %v", f, err)
		}
		B := vfBoundarySet(data)
		all := make([]int, 0, len(data))
		for i := 1; i < len(data); i++ {
			all = append(all, i)
		}
		sets := [][]int{nil, B, all}
		for k := 0; k < r.Pick(20, 300); k++ {
			var cs []int
			p := rng.Float64() * 0.02
			for i := 1; i < len(data); i++ {
				if rng.Float64() < p {
					cs = append(cs, i)
				}
			}
			sets = append(sets, cs)
		}
		for ci, cs := range sets {
			for _, eof := range []bool{false, true} {
				run(vfCase{f, data, cs, eof, []int{0, 1024, len(data), 1 << 16}[ci%4], -1, -1}, "file:"+f, "none")
			}
		}
		// concatenations: init + media, media + media (a stream of segments on one connection)
		if f == "testdata/3_chunked.m4s" {
			ini, _ := os.ReadFile("testdata/video_init.mp4")
			cat := append(append([]byte{}, ini...), data...)
			for _, cs := range [][]int{nil, {len(ini)}, {len(ini) - 1, len(ini) + 1}} {
				run(vfCase{"init+3_chunked", cat, cs, true, 1024, -1, -1}, "file:init+media", "none")
			}
		}
	}
	// impossible size fields: termination (and prefix) only
	hostile := []uint32{0, 1, 2, 3, 4, 5, 6, 7, 0x7fffffff, 0x80000000, 0xffffffff, 0xfffffff8, 0xfffffff0, 0xffffff00}
	base := vfBuild([]vfBox{{"styp", 4}, {"moof", 8}, {"mdat", 5}, {"moof", 4}, {"mdat", 3}}, 7)
	offs := []int{0, 12, 28, 41, 53}
	for _, o := range offs {
		for _, hz := range hostile {
			d := append([]byte{}, base...)
			d[o], d[o+1], d[o+2], d[o+3] = byte(hz>>24), byte(hz>>16), byte(hz>>8), byte(hz)
			run(vfCase{fmt.Sprintf("hostile-size@%d=%#x", o, hz), d, nil, false, 64, -1, -1}, "hostile-size", fmt.Sprintf("size=%#x", hz))
		}
	}
	if r.NViolations() > 0 {
		t.Fail()
	}
}

func vfFirst(a []int, _ int, _ bool) []int { return a }

func vfShapeName(s string) string {
	if len(s) > 4 && s[:4] == "rand" {
		return "rand"
	}
	return s
}
