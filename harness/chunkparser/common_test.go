package chunkparser

// Shared helpers of the chunk-parser monitors (C18, C08P): synthetic box streams,
// a fragmenting reader, and the independent reference walk.

import (
	"encoding/binary"
	"errors"
	"io"
	"sync/atomic"
	"time"
)

type vfBox struct {
	typ     string
	payload int
}

func vfBuild(boxes []vfBox, fill byte) []byte {
	var out []byte
	for i, b := range boxes {
		h := make([]byte, 8+b.payload)
		binary.BigEndian.PutUint32(h, uint32(8+b.payload))
		copy(h[4:8], b.typ)
		for j := 8; j < len(h); j++ {
			h[j] = fill + byte(i*31+j)
		}
		out = append(out, h...)
	}
	return out
}

// vfReader hands out the data in pieces: each Read returns at most up to the next cut.
type vfReader struct {
	data     []byte
	cuts     []int // sorted offsets at which a read must stop
	pos      int
	eofWith  bool // deliver io.EOF together with the last bytes
	failAt   int  // >=0: return failErr once pos reaches this offset
	failErr  error
	consumed int
	reads    int
}

func (r *vfReader) Read(p []byte) (int, error) {
	r.reads++
	if r.failAt >= 0 && r.pos >= r.failAt {
		return 0, r.failErr
	}
	if r.pos >= len(r.data) {
		return 0, io.EOF
	}
	if len(p) == 0 {
		return 0, nil
	}
	end := len(r.data)
	for _, c := range r.cuts {
		if c > r.pos {
			if c < end {
				end = c
			}
			break
		}
	}
	if r.failAt >= 0 && r.failAt > r.pos && r.failAt < end {
		end = r.failAt
	}
	n := end - r.pos
	if n > len(p) {
		n = len(p)
	}
	copy(p, r.data[r.pos:r.pos+n])
	r.pos += n
	r.consumed = r.pos
	if r.pos >= len(r.data) && r.eofWith {
		return n, io.EOF
	}
	return n, nil
}

type vfCB struct {
	start    uint32
	isInit   bool
	data     []byte
	consumed int // bytes handed out by the reader when the callback was made
}

// vfExpect is the independent reference: top-level box walk over the complete byte string.
// It returns the offsets at which a callback is expected (end of each complete mdat, plus end of input for a
// non-empty tail) and the offset at which the first moov header has been completely seen (-1: none).
// ok=false when a size field is < 8 or the walk cannot be defined (then only termination and
// concatenation-prefix properties are judged).
func vfExpect(data []byte) (ends []int, moovAt int, wellFormed bool) {
	moovAt = -1
	pos := 0
	wellFormed = true
	for pos+8 <= len(data) {
		size := int(binary.BigEndian.Uint32(data[pos : pos+4]))
		typ := string(data[pos+4 : pos+8])
		if size < 8 || size >= 1<<31 {
			wellFormed = false // impossible size: only termination and prefix-concatenation are claimed
			break
		}
		if typ == "moov" && moovAt < 0 {
			moovAt = pos
		}
		if pos+size > len(data) {
			break // truncated box: tail
		}
		pos += size
		if typ == "mdat" {
			ends = append(ends, pos)
		}
	}
	if len(ends) == 0 || ends[len(ends)-1] != len(data) {
		if len(data) > 0 {
			ends = append(ends, len(data))
		}
	}
	return
}

var vfWatchdogFirings int32

var errVfCallback = errors.New("vf-callback-error")
var errVfRead = errors.New("vf-read-error")

type vfRun struct {
	cbs      []vfCB
	err      error
	finished bool
	slow     bool // finished only in the grace period after the watchdog
}

// vfParse runs the real parser under a watchdog. cbFailAt >= 0 makes that callback return errVfCallback.
func vfParse(rd *vfReader, initBuf int, cbFailAt int, watchdog time.Duration) vfRun {
	var run vfRun
	done := make(chan struct{})
	go func() {
		defer close(done)
		p := NewMP4ChunkParser(rd, make([]byte, initBuf), func(cd ChunkData) error {
			c := make([]byte, len(cd.Data))
			copy(c, cd.Data)
			run.cbs = append(run.cbs, vfCB{cd.Start, cd.IsInitSegment, c, rd.consumed})
			if cbFailAt >= 0 && len(run.cbs)-1 == cbFailAt {
				return errVfCallback
			}
			return nil
		})
		run.err = p.Parse()
	}()
	select {
	case <-done:
		run.finished = true
	case <-time.After(watchdog):
		// A parse takes microseconds. Before "did not terminate" is concluded the first few firings get a
		// second, longer grace period so that a stalled machine cannot fabricate the verdict.
		if atomic.AddInt32(&vfWatchdogFirings, 1) <= 3 {
			select {
			case <-done:
				run.finished = true
				run.slow = true
			case <-time.After(6 * watchdog):
			}
		}
	}
	return run
}
