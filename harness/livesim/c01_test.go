package app

// C01 – looped output is one gap-free, wall-clock-anchored media timeline.
// Oracle: independent VoD truth table (ora.LoadAsset). Every served video / subtitle / thumbnail segment with live
// index n is compared field by field with VoD segment n mod N; tfdt = floor(n/N)*loop + start; seq = startNumber+n;
// abutment from the observed values; $Number$ vs $Time$ addressing byte-identical; TTML stamps shifted like tfdt.

import (
	"bytes"
	"fmt"
	"math"
	"regexp"
	"strconv"
	"testing"

	"github.com/Eyevinn/mp4ff/mp4"
	"verif.local/vlib/ora"
	"verif.local/vlib/rep"
)

type vfC01Cfg struct {
	mode   string // number | time | tlnr
	snr    int    // -1: unset (default start number 0)
	startS int64
}

func (c vfC01Cfg) url() string {
	s := ""
	switch c.mode {
	case "time":
		s = "segtimeline_1"
	case "tlnr":
		s = "segtimelinenr_1"
	}
	add := func(x string) {
		if s != "" {
			s += "/"
		}
		s += x
	}
	if c.snr >= 0 {
		add(fmt.Sprintf("snr_%d", c.snr))
	}
	if c.startS != 0 {
		add(fmt.Sprintf("start_%d", c.startS))
	}
	return s
}

func (c vfC01Cfg) startNr() int64 {
	if c.snr >= 0 {
		return int64(c.snr)
	}
	return 0
}

var vfTTMLStamp = regexp.MustCompile(`(\d\d+):(\d\d):(\d\d)(\.\d\d\d)?`)

func vfStampsMS(b []byte) (out []int64, rest string) {
	rest = vfTTMLStamp.ReplaceAllString(string(b), "@T@")
	for _, m := range vfTTMLStamp.FindAllStringSubmatch(string(b), -1) {
		h, _ := strconv.Atoi(m[1])
		mi, _ := strconv.Atoi(m[2])
		s, _ := strconv.Atoi(m[3])
		ms := 0
		if m[4] != "" {
			ms, _ = strconv.Atoi(m[4][1:])
		}
		out = append(out, int64(h)*3600000+int64(mi)*60000+int64(s)*1000+int64(ms))
	}
	return
}

func TestVerifC01(t *testing.T) {
	r := rep.New("C01")
	reask := &vfReask{}
	r.Rule("case = (asset, representation, addressing mode, startNumber, start time, live index n); class = (asset, rep, mode, snr, start, n mod N, " +
		"wrap bucket {0,1,2,3-9,10-999,1e3-1e5,>1e5}, tfdt needs 64 bit); counted only when the served segment was parsed and compared with the VoD segment")
	r.Assume("VoD truth table from an independent mp4ff/encoding-xml walk of the asset files; trex defaults taken from the VoD init")
	r.Assume("snr_-1 and text tracks whose total length differs from the video loop are outside the driven domain (weakest reading)")
	defer func() { r.Done(); t.Log(r.Summary()) }()

	worlds := vfWorlds(t, true)
	caseNo := 0
	sampled := 0
	for _, w := range worlds {
		a := w.Asset
		for _, rid := range a.RepIDs {
			rp := a.Reps[rid]
			if rp.ContentType == "audio" {
				continue // C03
			}
			if _, ok := a.LoopTicks(rp); !ok {
				r.Add("reps_skipped_loop_not_integral_in_rep_timescale", 1)
				continue
			}
			if lt, _ := a.LoopTicks(rp); lt != rp.Dur() {
				r.Add("reps_skipped_length_differs_from_loop", 1)
				continue
			}
			N := int64(rp.N())
			// configurations: core list + seeded extras
			cfgs := []vfC01Cfg{{"number", -1, 0}, {"time", -1, 0}, {"tlnr", -1, 0}, {"number", 7, 1000}, {"time", 1, 1_700_000_000},
				{"tlnr", 1000, 1000}, {"number", 0, 1_700_000_000}, {"time", 7, 1000}, {"tlnr", 1, 0}, {"number", 1000, 0}}
			if rp.ContentType == "image" {
				cfgs = []vfC01Cfg{{"number", -1, 0}, {"time", 7, 1000}, {"tlnr", 1, 1_700_000_000}}
			}
			if !r.Thorough() {
				// quick: 4 configurations per rep chosen by rotation so that all are covered over the asset set
				k := caseNo % len(cfgs)
				sel := []vfC01Cfg{cfgs[0], cfgs[1%len(cfgs)], cfgs[(2+k)%len(cfgs)], cfgs[(5+k)%len(cfgs)]}
				cfgs = sel
			}
			// seeded configurations: start times that are not multiples of the loop duration (the loop phase of the
			// availabilityStartTime then differs from that of the epoch), arbitrary start numbers
			rng := r.Rand(int64(1000 + caseNo))
			modes := []string{"number", "time", "tlnr"}
			if rp.ContentType == "image" {
				modes = []string{"number"}
			}
			for k := 0; k < r.Pick(1, 14); k++ {
				st := []int64{1 + rng.Int63n(100_000), 1_000_000 + rng.Int63n(1_000_000_000), 1_600_000_000 + rng.Int63n(200_000_000)}[rng.Intn(3)]
				sn := []int{-1, rng.Intn(10), 10 + rng.Intn(100_000)}[rng.Intn(3)]
				cfgs = append(cfgs, vfC01Cfg{modes[rng.Intn(len(modes))], sn, st})
			}
			for _, cfg := range cfgs {
				// index windows: 0..3N+2 consecutively, then N+2 windows at far wraps and far instants
				var idx []int64
				for n := int64(0); n <= 3*N+2; n++ {
					idx = append(idx, n)
				}
				far := []int64{10 * N, 1000 * N, 100000 * N}
				for k := 0; k < r.Pick(1, 10); k++ { // seeded wraps
					far = append(far, (3+rng.Int63n(2_000_000))*N)
				}
				for _, nowMS := range []int64{2_000_000_000_000, 3_000_000_000_000} {
					if nowMS > cfg.startS*1000 {
						far = append(far, a.NewestAvail(rp, nowMS, cfg.startS, 0))
					}
				}
				win := N + 2
				if !r.Thorough() && win > 6 {
					win = 6
				}
				for _, f := range far {
					base := f - f%N - 1 // straddle the wrap
					if base < 0 {
						base = 0
					}
					for n := base; n < base+win; n++ {
						idx = append(idx, n)
					}
				}
				caseNo++
				desc := fmt.Sprintf("%s rep=%s cfg=%q", w.Ref.Path, rid, cfg.url())
				if !r.Begin(caseNo, desc) {
					continue
				}
				var prevEnd uint64
				var prevN int64 = -10
				for _, n := range idx {
					vod, wantStart, wantEnd := a.LiveSeg(rp, n)
					nowMS := a.AvailMS(rp, n, cfg.startS, 0)
					mode := cfg.mode
					if rp.ContentType == "image" {
						mode = "number" // thumbnails are always addressed by number
					}
					var u string
					if mode == "time" {
						u = vfMediaURL(rp, wantStart)
					} else {
						u = vfMediaURL(rp, uint64(cfg.startNr()+n))
					}
					full := vfURL(cfg.url(), w.Ref.Path, u, nowMS)
					resp := vfGet(w.Srv, full)
					reask.add(w.Srv, full, resp)
					r.Eval(1)
					det := func(extra string) map[string]any {
						return map[string]any{"url": full, "n": n, "N": N, "vod_file": vod.File, "what": extra}
					}
					sigp := fmt.Sprintf("%s:%s:", rp.ContentType, cfg.mode)
					if cfg.startS != 0 {
						sigp += "start>0:"
					}
					if cfg.startNr() != 0 {
						sigp += "snr>0:"
					}
					if resp.Code != 200 {
						r.Violation(sigp+fmt.Sprintf("status-%d-at-availability-instant", resp.Code), det(vfTrunc(resp.Body, 120)))
						prevN = -10
						continue
					}
					wb := "0"
					switch wraps := n / N; {
					case wraps == 0:
					case wraps < 3:
						wb = strconv.FormatInt(wraps, 10)
					case wraps < 10:
						wb = "3-9"
					case wraps < 1000:
						wb = "10-999"
					case wraps <= 100000:
						wb = "1e3-1e5"
					default:
						wb = ">1e5"
					}
					cls := fmt.Sprintf("%s|%s|%s|snr=%d|start=%d|k=%d|wraps=%s|64bit=%v", w.Ref.Path, rid, cfg.mode, cfg.snr, cfg.startS, n%N, wb, wantStart > math.MaxUint32)
					if rp.ContentType == "image" {
						if !bytes.Equal(resp.Body, vod.Raw) {
							r.Violation(sigp+"thumbnail-bytes-differ", det(fmt.Sprintf("len %d vs vod %d", len(resp.Body), len(vod.Raw))))
						}
						if ct := resp.Hdr.Get("Content-Type"); ct != "image/jpeg" {
							r.Violation(sigp+"thumbnail-content-type", det(ct))
						}
						r.Class(cls)
						continue
					}
					ps, err := ora.ParseSegment(resp.Body, rp.Trex)
					if err != nil {
						r.Violation(sigp+"served-segment-unparseable", det(err.Error()))
						continue
					}
					r.Class(cls)
					if sampled < 3 && n > N {
						sampled++
						r.Sample(map[string]any{"url": full, "n": n, "vod_file": vod.File, "served_seq": ps.Seq, "served_tfdt": ps.Tfdt, "expected_tfdt": wantStart, "samples": len(ps.Samples)})
					}
					if int64(ps.Seq) != cfg.startNr()+n {
						r.Violation(sigp+"sequence-number", det(fmt.Sprintf("mfhd.seq=%d want %d", ps.Seq, cfg.startNr()+n)))
					}
					for _, fg := range ps.Frags {
						if int64(fg.Seq) != cfg.startNr()+n {
							r.Violation(sigp+"sequence-number-later-fragment", det(fmt.Sprintf("seq=%d want %d", fg.Seq, cfg.startNr()+n)))
							break
						}
					}
					if ps.Tfdt != wantStart {
						r.Violation(sigp+"decode-time", det(fmt.Sprintf("tfdt=%d want %d (wraps=%d loop+start)", ps.Tfdt, wantStart, n/N)))
					}
					if ps.Tfdt+ps.TotalDur != wantEnd && ps.Tfdt == wantStart {
						r.Violation(sigp+"duration", det(fmt.Sprintf("dur=%d want %d", ps.TotalDur, wantEnd-wantStart)))
					}
					if prevN == n-1 && ps.Tfdt != prevEnd {
						r.Violation(sigp+"gap-or-overlap-between-consecutive-segments", det(fmt.Sprintf("start=%d previous end=%d", ps.Tfdt, prevEnd)))
					}
					prevN, prevEnd = n, ps.Tfdt+ps.TotalDur
					// later fragments must be shifted by the same amount
					if len(ps.Frags) > 1 {
						vb, _ := readVodFile(w.Root, a.Path, vod.File)
						if vp, err := ora.ParseSegment(vb, rp.Trex); err == nil && len(vp.Frags) == len(ps.Frags) {
							for i := range vp.Frags {
								if ps.Frags[i].Tfdt-ps.Frags[0].Tfdt != vp.Frags[i].Tfdt-vp.Frags[0].Tfdt {
									r.Violation(sigp+"fragment-decode-times-not-shifted-uniformly", det(fmt.Sprintf("fragment %d", i)))
									break
								}
							}
						}
					}
					// samples
					isStpp := len(rp.Codecs) >= 4 && rp.Codecs[:4] == "stpp"
					if len(ps.Samples) != len(vod.Samples) {
						r.Violation(sigp+"sample-count", det(fmt.Sprintf("%d vs vod %d", len(ps.Samples), len(vod.Samples))))
					} else if !isStpp {
						for i := range ps.Samples {
							s, v := ps.Samples[i], vod.Samples[i]
							if s != v {
								what := "payload"
								switch {
								case s.Dur != v.Dur:
									what = "duration"
								case s.Size != v.Size:
									what = "size"
								case s.Flags != v.Flags:
									what = "flags"
								case s.Cto != v.Cto:
									what = "cto"
								}
								r.Violation(sigp+"sample-"+what+"-differs-from-vod", det(fmt.Sprintf("sample %d served=%+v vod=%+v data=%q", i, s, v, vfTrunc(ps.Data[i], 40))))
								break
							}
						}
					} else {
						vfC01Stpp(r, sigp, det, ps, vod, rp, int64(ps.Tfdt)-int64(vod.Start))
					}
					// the same segment by the other addressing (number <-> time), byte for byte
					if rp.ContentType != "image" && n%3 == 0 {
						oc := cfg
						var ou string
						if cfg.mode == "time" {
							oc.mode = "tlnr"
							ou = vfMediaURL(rp, uint64(cfg.startNr()+n))
						} else {
							oc.mode = "time"
							ou = vfMediaURL(rp, wantStart)
						}
						ofull := vfURL(oc.url(), w.Ref.Path, ou, nowMS)
						or := vfGet(w.Srv, ofull)
						r.Eval(1)
						if or.Code != 200 {
							r.Violation(rp.ContentType+":other-addressing-status-"+strconv.Itoa(or.Code)+vfStartSnrTag(cfg), det("other addressing: "+ofull+" -> "+vfTrunc(or.Body, 80)))
						} else if !bytes.Equal(or.Body, resp.Body) {
							r.Violation(rp.ContentType+":number-vs-time-addressing-differ"+vfStartSnrTag(cfg), det("other addressing: "+ofull))
						}
					}
				}
			}
		}
	}
	vfReaskAtOnce(r, reask, "segments")
	if r.NViolations() > 0 {
		t.Fail()
	}
}

func vfStartSnrTag(c vfC01Cfg) string {
	s := ""
	if c.startS != 0 {
		s += ":start>0"
	}
	if c.startNr() != 0 {
		s += ":snr>0"
	}
	return s
}

func readVodFile(root, asset, file string) ([]byte, error) {
	return readFile(root + "/" + asset + "/" + file)
}

func vfC01Stpp(r *rep.R, sigp string, det func(string) map[string]any, ps *ora.ParsedSeg, vod *ora.Seg, rp *ora.Rep, shiftTicks int64) {
	if len(ps.Data) != 1 || len(vod.Data) != 1 {
		return
	}
	wantShiftMS := int64(math.Round(float64(shiftTicks) * 1000 / float64(rp.Timescale)))
	if (shiftTicks*1000)%int64(rp.Timescale) == 0 {
		wantShiftMS = shiftTicks * 1000 / int64(rp.Timescale) // exact
	}
	// TTML part (image subtitles: first sub-sample)
	sd, vd := ps.Data[0], vod.Data[0]
	endTag := []byte("</tt>")
	si, vi := bytes.LastIndex(sd, endTag), bytes.LastIndex(vd, endTag)
	if si < 0 || vi < 0 {
		r.Violation(sigp+"ttml-end-tag-missing", det(""))
		return
	}
	// trailing whitespace after </tt> belongs to the TTML document
	se, ve := si+len(endTag), vi+len(endTag)
	sT, vT := sd[:se], vd[:ve]
	ss, srest := vfStampsMS(sT)
	vs, vrest := vfStampsMS(vT)
	if srest != vrest {
		r.Violation(sigp+"ttml-text-changed", det("non-timestamp text differs"))
		return
	}
	if len(ss) != len(vs) {
		r.Violation(sigp+"ttml-timestamp-count", det(fmt.Sprintf("%d vs %d", len(ss), len(vs))))
		return
	}
	for i := range ss {
		if ss[i]-vs[i] != wantShiftMS {
			r.Violation(sigp+"ttml-timestamp-shift", det(fmt.Sprintf("stamp %d moved by %d ms, decode time by %d ms", i, ss[i]-vs[i], wantShiftMS)))
			return
		}
	}
	// payload after the TTML document (embedded images) unchanged
	if !bytes.Equal(sd[len(sd)-(len(vd)-ve):], vd[ve:]) && len(vd)-ve > 0 {
		// allow for whitespace tail attribution: compare suffix of equal length
		r.Violation(sigp+"stpp-embedded-data-changed", det(""))
	}
	// subs box: first sub-sample size must equal the new TTML length
	fr := ps.Raw.Segments[0].Fragments[0]
	for _, c := range fr.Moof.Traf.Children {
		if sb, ok := c.(*mp4.SubsBox); ok && len(sb.Entries) > 0 && len(sb.Entries[0].SubSamples) > 0 {
			tot := uint32(0)
			for _, x := range sb.Entries[0].SubSamples {
				tot += x.SubsampleSize
			}
			if int(tot) != len(sd) {
				r.Violation(sigp+"stpp-subsample-sizes-do-not-add-up", det(fmt.Sprintf("sum %d sample size %d", tot, len(sd))))
			}
		}
	}
	if int(ps.Samples[0].Size) != len(sd) {
		r.Violation(sigp+"stpp-sample-size", det(""))
	}
}
