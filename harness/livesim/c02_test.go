package app

// C02 – the live MPD and the segment server agree on what is available.
// For (asset, cfg, instant): the MPD is evaluated by an independent DASH reader (ora.MPD); every segment it declares
// available is fetched at the same instant and compared (status, tfdt, duration, number); the one after the live edge
// must be 425; the timeline is checked against the VoD truth table (contiguous, newest = newest ended, bounded start).

import (
	"fmt"
	"math/big"
	"strconv"
	"strings"
	"sync"
	"testing"

	"verif.local/vlib/ora"
	"verif.local/vlib/rep"
)

type vfC02Cfg struct {
	mode     string // number | time | tlnr
	start    string // "" | "start_S" | "startrel_-R"
	startS   int64  // resolved at instant for startrel
	tsbd     int    // -1 unset
	snr      int    // -1 unset
	ato      string
	atoMS    int64
	timesubs string // "" | timesubsstpp_en | timesubswvtt_en,sv ...
}

func (c vfC02Cfg) url() string {
	var p []string
	switch c.mode {
	case "time":
		p = append(p, "segtimeline_1")
	case "tlnr":
		p = append(p, "segtimelinenr_1")
	}
	if c.start != "" {
		p = append(p, c.start)
	}
	if c.tsbd >= 0 {
		p = append(p, "tsbd_"+strconv.Itoa(c.tsbd))
	}
	if c.snr >= 0 {
		p = append(p, "snr_"+strconv.Itoa(c.snr))
	}
	if c.ato != "" {
		p = append(p, "ato_"+c.ato)
	}
	if c.timesubs != "" {
		p = append(p, c.timesubs)
	}
	return strings.Join(p, "/")
}

func (c vfC02Cfg) tag() string {
	s := c.mode
	if c.start != "" {
		s += ":start"
	}
	if c.snr > 0 {
		s += ":snr>0"
	}
	if c.ato != "" {
		s += ":ato"
	}
	if c.timesubs != "" {
		s += ":timesubs"
	}
	return s
}

func ratEq(a1, b1, a2, b2 uint64) bool { // a1/b1 == a2/b2
	return new(big.Int).Mul(new(big.Int).SetUint64(a1), new(big.Int).SetUint64(b2)).Cmp(
		new(big.Int).Mul(new(big.Int).SetUint64(a2), new(big.Int).SetUint64(b1))) == 0
}

// |a1/b1 - a2/b2| <= tn/td
func ratWithin(a1, b1, a2, b2, tn, td uint64) bool {
	x := new(big.Rat).SetFrac(new(big.Int).SetUint64(a1), new(big.Int).SetUint64(b1))
	y := new(big.Rat).SetFrac(new(big.Int).SetUint64(a2), new(big.Int).SetUint64(b2))
	d := new(big.Rat).Sub(x, y)
	d.Abs(d)
	return d.Cmp(new(big.Rat).SetFrac(new(big.Int).SetUint64(tn), new(big.Int).SetUint64(td))) <= 0
}

type vfInitCache struct {
	mu sync.Mutex
	m  map[string]*ora.InitInfo
}

func TestVerifC02(t *testing.T) {
	r := rep.New("C02")
	r.Rule("case = (asset MPD, cfg{type,start,tsbd,snr,ato,timesubs}, instant); instants are both sides of availability breakpoints A(n), A(n)+tsbd, stream start, " +
		"interior points and far-from-epoch; class = (asset, cfg tag, tsbd, adaptation-set kind, instant kind); counted when declared segments of that kind were fetched and compared")
	r.Assume("declared vs served times compared as exact rationals in seconds (media timescale from the served init)")
	r.Assume("$Number$ templates: exact for constant-duration video/text; audio within one audio frame (audio follows frame boundaries); variable-duration assets: edge segments (2 newest, 2 oldest, next) are not judged")
	r.Assume("multi-period configurations are judged under C06, not here")
	defer func() { r.Done(); t.Log(r.Summary()) }()
	worlds := vfWorlds(t, false)
	inits := &vfInitCache{m: map[string]*ora.InitInfo{}}
	var wg sync.WaitGroup
	sem := make(chan struct{}, 12)
	for wi, w := range worlds {
		wi, w := wi, w
		wg.Add(1)
		sem <- struct{}{}
		go func() {
			defer func() { <-sem; wg.Done() }()
			vfC02World(r, wi, w, inits)
		}()
	}
	wg.Wait()
	if r.NViolations() > 0 {
		t.Fail()
	}
}

func vfC02World(r *rep.R, wi int, w vfWorld, inits *vfInitCache) {
	caseNo := wi * 100000
	{
		a := w.Asset
		segMS := a.LoopMS / int64(a.Ref.N())
		ms := func(x int64) string { return fmt.Sprintf("%d.%03d", x/1000, x%1000) }
		all := []vfC02Cfg{
			{mode: "number", tsbd: -1, snr: -1}, {mode: "time", tsbd: -1, snr: -1}, {mode: "tlnr", tsbd: -1, snr: -1},
			{mode: "time", tsbd: 7, snr: -1}, {mode: "tlnr", tsbd: 7, snr: 5}, {mode: "number", tsbd: 1, snr: 5},
			{mode: "number", start: "start_1000", startS: 1000, tsbd: 7, snr: -1}, {mode: "time", start: "start_1000", startS: 1000, tsbd: -1, snr: -1},
			{mode: "tlnr", start: "start_1000", startS: 1000, tsbd: 11, snr: 3}, {mode: "time", tsbd: 1, snr: 1},
			{mode: "number", tsbd: -1, snr: 0, ato: ms(segMS / 4), atoMS: segMS / 4}, {mode: "time", tsbd: 9, snr: -1, ato: ms(segMS / 2), atoMS: segMS / 2},
			{mode: "tlnr", tsbd: 7, snr: -1, ato: ms(segMS - 40), atoMS: segMS - 40}, {mode: "number", tsbd: 7, snr: -1, ato: "inf"},
			{mode: "time", tsbd: 300, snr: -1}, {mode: "number", start: "startrel_-20", tsbd: 7, snr: 1},
			{mode: "time", start: "startrel_-33", tsbd: -1, snr: -1},
			{mode: "number", tsbd: 7, snr: -1, timesubs: "timesubsstpp_en"}, {mode: "time", tsbd: 7, snr: -1, timesubs: "timesubsstpp_en,sv"},
			{mode: "tlnr", tsbd: 7, snr: 2, timesubs: "timesubswvtt_en"}, {mode: "time", start: "start_1000", startS: 1000, tsbd: 7, snr: -1, timesubs: "timesubswvtt_sv"},
			{mode: "time", tsbd: 7, snr: -1, ato: ms(segMS + segMS/2), atoMS: segMS + segMS/2},
		}
		cfgs := all
		if !r.Thorough() {
			cfgs = nil
			for i := 0; i < 8; i++ {
				cfgs = append(cfgs, all[(i*3+wi*5+int(r.Seed))%len(all)])
			}
			cfgs = append(cfgs, all[1], all[4])
		}
		for _, cfg := range cfgs {
			// instants
			type inst struct {
				t    int64
				kind string
			}
			var ins []inst
			tsbdMS := int64(60000)
			if cfg.tsbd >= 0 {
				tsbdMS = int64(cfg.tsbd) * 1000
			}
			base := cfg.startS
			if strings.HasPrefix(cfg.start, "startrel") {
				base = 0
			}
			rng := r.Rand(int64(wi*1000 + caseNo))
			addBP := func(n int64, kinds bool) {
				b := a.AvailMS(a.Ref, n, base, cfg.atoMS)
				for _, d := range []int64{-1, 0, 1} {
					ins = append(ins, inst{b + d, fmt.Sprintf("A%+d", d)})
				}
				if kinds {
					for _, d := range []int64{-1, 0, 1} {
						ins = append(ins, inst{b + tsbdMS + d, fmt.Sprintf("A+tsbd%+d", d)})
					}
					ins = append(ins, inst{b + segMS/3, "interior"})
				}
			}
			if strings.HasPrefix(cfg.start, "startrel") {
				// AST moves with now: sample a few instants
				for _, x := range []int64{50_000, 50_499, 50_500, 123_456, 1_700_000_000_000 + rng.Int63n(100000)} {
					ins = append(ins, inst{x, "startrel"})
				}
			} else {
				ins = append(ins, inst{base*1000 + 1, "start+1ms"})
				N := int64(a.Ref.N())
				span := 2 * N
				if !r.Thorough() {
					span = N + 2
					if span > 6 {
						span = 6
					}
				}
				for n := int64(0); n < 2 && n < N; n++ {
					addBP(n, false)
				}
				off := 30 + rng.Int63n(20)
				for n := off * N; n < off*N+span; n++ {
					addBP(n, true)
				}
				far := a.NewestAvail(a.Ref, 1_800_000_000_000+rng.Int63n(1e9), base, cfg.atoMS)
				addBP(far, false)
				if cfg.timesubs != "" && cfg.mode != "number" {
					// the subtitle timeline is the video timeline converted to milliseconds: first-listed entries around powers of two
					// (where a truncating or single-precision conversion first goes wrong for timescales that 1000 does not divide)
					back := tsbdMS/segMS + 1
					for k := uint(6); k <= 9; k++ {
						for j := int64(0); j < 4; j++ {
							addBP(int64(1)<<k+j+back, false)
						}
					}
				}
			}
			for _, in := range ins {
				if in.t < 0 {
					continue
				}
				caseNo++
				if !r.Begin(caseNo, fmt.Sprintf("%s/%s %q t=%d", w.Ref.Path, w.Ref.MPD, cfg.url(), in.t)) {
					continue
				}
				vfC02Instant(r, w, cfg, in.t, in.kind, inits)
			}
		}
	}
}

func vfC02Instant(r *rep.R, w vfWorld, cfg vfC02Cfg, nowMS int64, kind string, inits *vfInitCache) {
	a := w.Asset
	mpdURL := vfURL(cfg.url(), w.Ref.Path, w.Ref.MPD, nowMS)
	resp := vfGet(w.Srv, mpdURL)
	r.Eval(1)
	tag := cfg.tag()
	if resp.Code != 200 {
		if cfg.startS*1000 > nowMS && resp.Code == 425 {
			return
		}
		sig := fmt.Sprintf("mpd-status-%d:%s", resp.Code, tag)
		if resp.Code == 500 && len(resp.Body) == 0 {
			sig = "mpd-crash:" + tag
		}
		r.Violation(sig, map[string]any{"url": mpdURL, "body": vfTrunc(resp.Body, 160)})
		return
	}
	m, err := ora.ParseMPD(resp.Body)
	if err != nil {
		r.Violation("mpd-unparseable", map[string]any{"url": mpdURL, "err": err.Error()})
		return
	}
	astMS, ok := ora.TimeMS(m.AST)
	if !ok {
		r.Violation("mpd-bad-availabilityStartTime", map[string]any{"url": mpdURL, "ast": m.AST})
		return
	}
	if !strings.HasPrefix(cfg.start, "startrel") && astMS != cfg.startS*1000 {
		r.Violation("mpd-availabilityStartTime-differs-from-start:"+tag, map[string]any{"url": mpdURL, "ast": m.AST})
	}
	tsbdMS, _ := ora.DurMS(m.TSBD)
	constDur := true
	d0 := a.Ref.Segs[0].Dur()
	for _, s := range a.Ref.Segs {
		if s.Dur() != d0 {
			constDur = false
		}
	}
	var maxDurMS int64
	for _, s := range a.Ref.Segs {
		if x := int64(s.Dur() * 1000 / a.Ref.Timescale); x > maxDurMS {
			maxDurMS = x
		}
	}
	fetch := func(d ora.Decl) vfResp {
		r.Eval(1)
		return vfGet(w.Srv, vfURL(cfg.url(), w.Ref.Path, d.URL, nowMS))
	}
	kindOf := func(d ora.Decl) string {
		if strings.HasPrefix(d.Rep, "timestpp") || strings.HasPrefix(d.Rep, "timewvtt") {
			return "timesubs"
		}
		return d.CType
	}
	det := func(d ora.Decl, what string, body []byte) map[string]any {
		return map[string]any{"mpd": mpdURL, "segment": d.URL, "declared": fmt.Sprintf("nr=%d t=%d d=%d ts=%d", d.Nr, d.T, d.D, d.TS), "what": what, "body": vfTrunc(body, 80)}
	}
	getInit := func(d ora.Decl) *ora.InitInfo {
		k := w.Ref.Path + "|" + d.Rep + "|" + cfg.url()
		inits.mu.Lock()
		ii, ok := inits.m[k]
		inits.mu.Unlock()
		if ok {
			return ii
		}
		ir := vfGet(w.Srv, vfURL(cfg.url(), w.Ref.Path, d.Init, nowMS))
		ii = nil
		if ir.Code == 200 {
			ii, _ = ora.ParseInit(ir.Body)
		}
		if ii == nil {
			r.Violation("init-not-served:"+kindOf(d), det(d, fmt.Sprintf("init %s -> %d", d.Init, ir.Code), ir.Body))
		}
		inits.mu.Lock()
		inits.m[k] = ii
		inits.mu.Unlock()
		return ii
	}
	compare := func(d ora.Decl, resp vfResp, tolStartN, tolStartD, tolDurN, tolDurD uint64, checkNr bool) {
		k := kindOf(d)
		if d.CType == "image" {
			return
		}
		ii := getInit(d)
		if ii == nil {
			return
		}
		ps, err := ora.ParseSegment(resp.Body, ii.Trex)
		if err != nil {
			r.Violation("declared-segment-unparseable:"+k, det(d, err.Error(), nil))
			return
		}
		// declared presentation time (t - PTO)/ts must equal tfdt/mediaTS
		if !ratWithin(ps.Tfdt, ii.Timescale, d.T-d.PTO, d.TS, tolStartN, tolStartD) {
			r.Violation("decode-time-differs-from-declared:"+k+":"+tag, det(d, fmt.Sprintf("tfdt=%d/%d", ps.Tfdt, ii.Timescale), nil))
		}
		if !ratWithin(ps.TotalDur, ii.Timescale, d.D, d.TS, tolDurN, tolDurD) {
			r.Violation("duration-differs-from-declared:"+k+":"+tag, det(d, fmt.Sprintf("dur=%d/%d", ps.TotalDur, ii.Timescale), nil))
		}
		if checkNr && d.Nr >= 0 && int64(ps.Seq) != d.Nr {
			r.Violation("number-differs-from-declared:"+k+":"+tag, det(d, fmt.Sprintf("mfhd.seq=%d", ps.Seq), nil))
		}
	}
	sampleDone := false
	thin := func(i, n int) bool { // with large windows fetch the edges and every 7th
		return n > 60 && i >= 4 && i < n-4 && i%7 != 0
	}
	if len(m.Periods) != 1 {
		r.Violation("unexpected-period-count", map[string]any{"url": mpdURL, "periods": len(m.Periods)})
		return
	}
	// ---- SegmentTimeline declarations
	tl := m.TimelineDecls()
	byRep := map[string][]ora.Decl{}
	var repOrder []string
	for _, d := range tl {
		if _, ok := byRep[d.Rep]; !ok {
			repOrder = append(repOrder, d.Rep)
		}
		byRep[d.Rep] = append(byRep[d.Rep], d)
	}
	for _, rid := range repOrder {
		ds := byRep[rid]
		k := kindOf(ds[0])
		for i, d := range ds {
			if i > 0 && ds[i-1].T+ds[i-1].D != d.T {
				r.Violation("timeline-not-contiguous:"+k+":"+tag, det(d, fmt.Sprintf("previous ends at %d", ds[i-1].T+ds[i-1].D), nil))
			}
			if thin(i, len(ds)) {
				continue
			}
			resp := fetch(d)
			if resp.Code != 200 {
				r.Violation(fmt.Sprintf("declared-but-status-%d:%s:%s", resp.Code, k, tag), det(d, fmt.Sprintf("entry %d of %d", i, len(ds)), resp.Body))
				continue
			}
			compare(d, resp, 0, 1, 0, 1, true)
		}
		// segment after the live edge must be too early
		last := ds[len(ds)-1]
		nx := last
		nx.T = last.T + last.D
		if last.Nr >= 0 {
			nx.Nr = last.Nr + 1
		}
		// URL of the next one
		for pi := range m.Periods {
			for ai := range m.Periods[pi].AS {
				as := &m.Periods[pi].AS[ai]
				for _, rr := range as.Reps {
					if rr.ID == rid && as.ST != nil {
						u := strings.ReplaceAll(as.ST.Media, "$RepresentationID$", rr.ID)
						u = strings.ReplaceAll(u, "$Number$", strconv.FormatInt(nx.Nr, 10))
						nx.URL = strings.ReplaceAll(u, "$Time$", strconv.FormatUint(nx.T, 10))
					}
				}
			}
		}
		nresp := fetch(nx)
		if nresp.Code != 425 && !(k == "audio" && nresp.Code == 200 && constDur == false) {
			// audio of variable-duration assets: the next audio duration may differ from the last one, so the $Time$ guess is not valid
			if !(strings.Contains(nx.URL, "$")) {
				if k == "audio" && cfg.mode == "time" && !constDur {
					// cannot predict next audio start from the last duration
				} else {
					r.Violation(fmt.Sprintf("segment-after-live-edge-status-%d:%s:%s", nresp.Code, k, tag), det(nx, "the one after the MPD's last entry", nresp.Body))
				}
			}
		}
		r.Class(fmt.Sprintf("%s|%s|tsbd=%d|%s|%s", w.Ref.Path+"/"+w.Ref.MPD, tag, cfg.tsbd, k, kind))
		if !sampleDone && len(ds) > 1 {
			sampleDone = true
			r.Sample(map[string]any{"mpd": mpdURL, "rep": rid, "declared_segments": len(ds), "first": fmt.Sprintf("t=%d d=%d nr=%d", ds[0].T, ds[0].D, ds[0].Nr), "last": fmt.Sprintf("t=%d d=%d nr=%d url=%s", last.T, last.D, last.Nr, last.URL), "next_status": nresp.Code})
		}
		// truth-table checks on the reference video timeline
		if rid == a.Ref.ID && !strings.HasPrefix(cfg.start, "startrel") {
			newest := a.NewestAvail(a.Ref, nowMS, cfg.startS, cfg.atoMS)
			if newest >= 0 {
				_, ws, _ := a.LiveSeg(a.Ref, newest)
				if last.T != ws {
					r.Violation("timeline-last-entry-is-not-newest-ended:"+tag, det(last, fmt.Sprintf("newest ended segment n=%d starts at %d", newest, ws), nil))
				}
			}
			relNow := nowMS - cfg.startS*1000
			lower := relNow - tsbdMS - 2*maxDurMS
			if lower > 0 && int64(ds[0].T*1000/ds[0].TS) < lower {
				r.Violation("timeline-first-entry-older-than-window:"+tag, det(ds[0], fmt.Sprintf("window start %d ms, max seg dur %d ms", relNow-tsbdMS, maxDurMS), nil))
			}
		}
	}
	if len(tl) == 0 && cfg.mode != "number" {
		// no segment finished yet: then the first segment must not be available either
		newest := a.NewestAvail(a.Ref, nowMS, cfg.startS, cfg.atoMS)
		if newest >= 0 && !strings.HasPrefix(cfg.start, "startrel") {
			r.Violation("timeline-empty-although-segment-ended:"+tag, map[string]any{"mpd": mpdURL, "newest": newest})
		}
		r.Class(fmt.Sprintf("%s|%s|empty-timeline|%s", w.Ref.Path, tag, kind))
	}
	// ---- $Number$ + duration declarations
	av, next, err := m.NumberDecls(nowMS)
	if err != nil {
		r.Violation("mpd-number-evaluation", map[string]any{"url": mpdURL, "err": err.Error()})
		return
	}
	byRep = map[string][]ora.Decl{}
	repOrder = nil
	for _, d := range av {
		if _, ok := byRep[d.Rep]; !ok {
			repOrder = append(repOrder, d.Rep)
		}
		byRep[d.Rep] = append(byRep[d.Rep], d)
	}
	for _, rid := range repOrder {
		ds := byRep[rid]
		k := kindOf(ds[0])
		lo, hi := 0, len(ds)
		if !constDur {
			lo, hi = 2, len(ds)-2
		}
		for i := lo; i < hi; i++ {
			d := ds[i]
			if thin(i, len(ds)) {
				continue
			}
			resp := fetch(d)
			if resp.Code != 200 {
				r.Violation(fmt.Sprintf("declared-but-status-%d:%s:%s", resp.Code, k, tag), det(d, fmt.Sprintf("number template, entry %d of %d (tsbd %d ms)", i, len(ds), tsbdMS), resp.Body))
				continue
			}
			var tsN, tsD, tdN, tdD uint64 = 0, 1, 0, 1
			if k == "audio" {
				if ar := a.Reps[rid]; ar != nil && ar.SampleDur > 0 {
					tsN, tsD = uint64(ar.SampleDur), ar.Timescale
					tdN, tdD = uint64(ar.SampleDur), ar.Timescale
				}
			}
			if !constDur {
				// within the asset's duration variation: max deviation of actual start from k*avg over a loop, and of dur from avg
				tsN, tsD = uint64(2*maxDurMS), 1000
				tdN, tdD = uint64(maxDurMS), 1000
			}
			compare(d, resp, tsN, tsD, tdN, tdD, true)
		}
		r.Class(fmt.Sprintf("%s|%s|tsbd=%d|%s|%s", w.Ref.Path+"/"+w.Ref.MPD, tag, cfg.tsbd, k, kind))
		if !sampleDone && len(ds) > 1 {
			sampleDone = true
			r.Sample(map[string]any{"mpd": mpdURL, "rep": rid, "declared_segments(number template)": len(ds), "first": ds[0].URL, "last": ds[len(ds)-1].URL})
		}
	}
	if constDur {
		for _, d := range next {
			resp := fetch(d)
			if resp.Code != 425 {
				r.Violation(fmt.Sprintf("segment-after-live-edge-status-%d:%s:%s", resp.Code, kindOf(d), tag), det(d, "number template: first segment whose declared availability time is in the future", resp.Body))
			}
		}
	}
}
