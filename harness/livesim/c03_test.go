package app

// C03 – audio is re-segmented to follow video boundaries without loss or duplication.
// Exact-integer reference model of the frame grid (ora.GridCeil / AudioSegTimes); every served audio segment is compared
// with it frame by frame (frame identity through payload hashes of the VoD frames); the MPD audio timeline as well.

import (
	"fmt"
	"strings"
	"sync"
	"sync/atomic"
	"testing"

	"verif.local/vlib/ora"
	"verif.local/vlib/rep"
)

type vfFrame struct {
	size uint32
	hash uint64
}

func TestVerifC03(t *testing.T) {
	r := rep.New("C03")
	r.Rule("case = (asset, audio representation, addressing mode, startNumber/start, live index n); class = (asset, rep, mode, n mod N, wrap bucket, " +
		"segment shape: {inside one loop, straddles loop wrap, contains padding frames}); counted when all frames of the served segment were compared with the model")
	r.Assume("frame identity by (size, FNV-64a of payload) of the VoD frames; a padding frame may be any VoD frame of that representation")
	r.Assume("frame grid anchored at availabilityStartTime (media time 0); loop k of the source starts at the first frame boundary at or after k*videoLoop")
	defer func() { r.Done(); t.Log(r.Summary()) }()
	worlds := vfWorlds(t, false)
	caseNo := 0
	sampled := 0
	for _, w := range worlds {
		a := w.Asset
		if a.Ref.ContentType != "video" {
			continue
		}
		for _, rid := range a.RepIDs {
			ar := a.Reps[rid]
			if ar.ContentType != "audio" || ar.SampleDur == 0 {
				continue
			}
			fd := uint64(ar.SampleDur)
			// VoD frames in order
			var frames []vfFrame
			known := map[vfFrame]bool{}
			for _, sg := range ar.Segs {
				for _, s := range sg.Samples {
					f := vfFrame{s.Size, s.Hash}
					frames = append(frames, f)
					known[f] = true
				}
			}
			F := uint64(len(frames))
			vLoop := a.Ref.Dur()
			W := func(k uint64) uint64 { return ora.GridCeil(k*vLoop, a.Ref.Timescale, fd, ar.Timescale) }
			N := int64(a.Ref.N())
			type cfgT struct {
				mode   string
				snr    int
				startS int64
			}
			cfgs := []cfgT{{"number", -1, 0}, {"time", -1, 0}, {"tlnr", 2, 1000}, {"time", 5, 1_700_000_000}, {"number", 1, 1000}}
			if !r.Thorough() {
				cfgs = []cfgT{cfgs[0], cfgs[1], cfgs[2+int(r.Seed+int64(caseNo))%3]}
			}
			// seeded configurations: start times off the loop grid, arbitrary start numbers
			rng := r.Rand(int64(3000 + caseNo))
			for k := 0; k < r.Pick(1, 12); k++ {
				st := []int64{1 + rng.Int63n(100_000), 1_000_000 + rng.Int63n(1_000_000_000), 1_600_000_000 + rng.Int63n(200_000_000)}[rng.Intn(3)]
				sn := []int{-1, rng.Intn(10), 10 + rng.Intn(100_000)}[rng.Intn(3)]
				cfgs = append(cfgs, cfgT{[]string{"number", "time", "tlnr"}[rng.Intn(3)], sn, st})
			}
			for ci, c := range cfgs {
				var seqURLs []string
				var seqHashes []uint64
				var parts []string
				switch c.mode {
				case "time":
					parts = append(parts, "segtimeline_1")
				case "tlnr":
					parts = append(parts, "segtimelinenr_1")
				}
				if c.snr >= 0 {
					parts = append(parts, fmt.Sprintf("snr_%d", c.snr))
				}
				if c.startS != 0 {
					parts = append(parts, fmt.Sprintf("start_%d", c.startS))
				}
				cfgURL := strings.Join(parts, "/")
				snr := int64(0)
				if c.snr >= 0 {
					snr = int64(c.snr)
				}
				var idx []int64
				for n := int64(0); n <= 4*N; n++ {
					idx = append(idx, n)
				}
				wraps := []int64{7, 100, 10_000, 1_000_000}
				if r.Thorough() {
					wraps = append(wraps, 13, 999, 123_457, 7_654_321)
				}
				for k := 0; k < r.Pick(1, 12); k++ { // seeded wraps
					wraps = append(wraps, 3+rng.Int63n(3_000_000))
				}
				for _, wr := range wraps {
					for n := wr*N - 2; n < wr*N+N; n++ {
						idx = append(idx, n)
					}
				}
				caseNo++
				if !r.Begin(caseNo, fmt.Sprintf("%s rep=%s %q", w.Ref.Path, rid, cfgURL)) {
					continue
				}
				var prevEnd uint64
				prevN := int64(-10)
				for _, n := range idx {
					aS, aE := a.AudioSegTimes(ar, n)
					nowMS := a.AvailMS(a.Ref, n, c.startS, 0)
					var u string
					if c.mode == "time" {
						u = vfMediaURL(ar, aS)
					} else {
						u = vfMediaURL(ar, uint64(snr+n))
					}
					full := vfURL(cfgURL, w.Ref.Path, u, nowMS)
					resp := vfGet(w.Srv, full)
					r.Eval(1)
					sigp := c.mode + ":"
					det := func(what string) map[string]any {
						return map[string]any{"url": full, "n": n, "expected_audio_interval": fmt.Sprintf("[%d,%d) = %d frames of %d", aS, aE, (aE-aS)/fd, fd), "what": what}
					}
					if resp.Code != 200 {
						sig := sigp + fmt.Sprintf("status-%d", resp.Code)
						if resp.Code == 500 && len(resp.Body) == 0 {
							sig = sigp + "crash"
						}
						r.Violation(sig, det(vfTrunc(resp.Body, 100)))
						prevN = -10
						continue
					}
					ps, err := ora.ParseSegment(resp.Body, ar.Trex)
					if err != nil {
						r.Violation(sigp+"unparseable", det(err.Error()))
						continue
					}
					if int64(ps.Seq) != snr+n {
						r.Violation(sigp+"sequence-number", det(fmt.Sprintf("seq=%d want %d", ps.Seq, snr+n)))
					}
					if ps.Tfdt != aS {
						r.Violation(sigp+"start-not-first-frame-boundary-at-or-after-video-start", det(fmt.Sprintf("tfdt=%d", ps.Tfdt)))
						continue
					}
					if prevN == n-1 && ps.Tfdt != prevEnd {
						r.Violation(sigp+"consecutive-audio-segments-do-not-abut", det(fmt.Sprintf("previous end %d", prevEnd)))
					}
					prevN, prevEnd = n, ps.Tfdt+ps.TotalDur
					if uint64(len(ps.Samples)) != (aE-aS)/fd {
						r.Violation(sigp+"frame-count", det(fmt.Sprintf("%d frames served", len(ps.Samples))))
						continue
					}
					shape := "inside-loop"
					bad := false
					for i, s := range ps.Samples {
						if uint64(s.Dur) != fd {
							r.Violation(sigp+"frame-duration", det(fmt.Sprintf("frame %d dur %d", i, s.Dur)))
							bad = true
							break
						}
						tq := aS + uint64(i)*fd // absolute time of this frame
						// loop k = max{k : W_k <= tq}
						k := tq * a.Ref.Timescale / ar.Timescale / vLoop
						for W(k+1) <= tq {
							k++
						}
						for k > 0 && W(k) > tq {
							k--
						}
						if i > 0 && W(k) == tq {
							shape = "straddles-wrap"
						}
						j := (tq - W(k)) / fd
						got := vfFrame{s.Size, s.Hash}
						if j < F {
							if got != frames[j] {
								what := "wrong-frame"
								if j > 0 && got == frames[j-1] {
									what = "frame-duplicated"
								} else if j+1 < F && got == frames[j+1] {
									what = "frame-dropped"
								} else if !known[got] {
									what = "frame-payload-not-from-vod"
								}
								r.Violation(sigp+what, det(fmt.Sprintf("frame %d of segment is absolute frame %d = loop %d source frame %d/%d", i, tq/fd, k, j, F)))
								bad = true
								break
							}
						} else {
							shape = "padding"
							if !known[got] {
								r.Violation(sigp+"padding-frame-not-from-vod", det(fmt.Sprintf("frame %d", i)))
								bad = true
								break
							}
						}
					}
					if bad {
						continue
					}
					wb := "0-4"
					switch wr := n / N; {
					case wr <= 4:
					case wr < 1000:
						wb = "5-999"
					default:
						wb = ">=1000"
					}
					r.Class(fmt.Sprintf("%s|%s|%s|k=%d|wraps=%s|%s", w.Ref.Path, rid, c.mode, n%N, wb, shape))
					if ci < 2 && len(seqURLs) < 48 {
						seqURLs, seqHashes = append(seqURLs, full), append(seqHashes, vfHash(resp.Body))
					}
					if sampled < 3 && shape != "inside-loop" {
						sampled++
						r.Sample(map[string]any{"url": full, "n": n, "tfdt": ps.Tfdt, "frames": len(ps.Samples), "shape": shape})
					}
				}
				// the same segments asked for by eight clients at once: the assembly of a segment from source frames must not share
				// working memory between requests (answers compared with the ones given one at a time above)
				if len(seqURLs) > 0 {
					var wg sync.WaitGroup
					var bad int32
					for g := 0; g < 8; g++ {
						wg.Add(1)
						go func(g int) {
							defer wg.Done()
							for k := 0; k < len(seqURLs); k++ {
								i := (k*3 + g*5) % len(seqURLs)
								resp := vfGet(w.Srv, seqURLs[i])
								if resp.Code != 200 || vfHash(resp.Body) != seqHashes[i] {
									if atomic.AddInt32(&bad, 1) == 1 {
										r.Violation(c.mode+":concurrent-answer-differs-from-the-answer-given-alone", map[string]any{"url": seqURLs[i], "status": resp.Code, "clients": 8})
									}
									return
								}
							}
						}(g)
					}
					wg.Wait()
					r.Eval(8 * len(seqURLs))
					if bad == 0 {
						r.Class(fmt.Sprintf("%s|%s|%s|concurrent", w.Ref.Path, rid, c.mode))
					}
				}
				// MPD audio SegmentTimeline lists exactly these start times and durations
				if c.mode != "number" {
					for _, nn := range []int64{N + 1, 3 * N, 1000*N + 1} {
						nowMS := a.AvailMS(a.Ref, nn, c.startS, 0)
						mu := vfURL(cfgURL, w.Ref.Path, w.Ref.MPD, nowMS)
						mr := vfGet(w.Srv, mu)
						r.Eval(1)
						if mr.Code != 200 {
							r.Violation(c.mode+fmt.Sprintf(":mpd-status-%d", mr.Code), map[string]any{"url": mu, "body": vfTrunc(mr.Body, 100)})
							continue
						}
						m, err := ora.ParseMPD(mr.Body)
						if err != nil {
							continue
						}
						var ad []ora.Decl
						for _, d := range m.TimelineDecls() {
							if d.Rep == rid {
								ad = append(ad, d)
							}
						}
						if len(ad) == 0 {
							r.Violation(c.mode+":mpd-audio-timeline-empty", map[string]any{"url": mu})
							continue
						}
						for i, d := range ad {
							n := nn - int64(len(ad)-1-i)
							if n < 0 {
								r.Violation(c.mode+":mpd-audio-timeline-too-long", map[string]any{"url": mu, "entries": len(ad)})
								break
							}
							aS, aE := a.AudioSegTimes(ar, n)
							if d.TS != ar.Timescale || d.T != aS || d.D != aE-aS {
								r.Violation(c.mode+":mpd-audio-timeline-entry-differs-from-model", map[string]any{"url": mu, "entry": i, "declared": fmt.Sprintf("t=%d d=%d ts=%d", d.T, d.D, d.TS), "model": fmt.Sprintf("n=%d t=%d d=%d", n, aS, aE-aS)})
								break
							}
							if d.Nr >= 0 && d.Nr != snr+n {
								r.Violation(c.mode+":mpd-audio-timeline-number", map[string]any{"url": mu, "entry": i, "declared_nr": d.Nr, "want": snr + n})
								break
							}
						}
						r.Class(fmt.Sprintf("%s|%s|%s|mpd-audio-timeline", w.Ref.Path, rid, c.mode))
					}
				}
			}
		}
	}
	if r.NViolations() > 0 {
		t.Fail()
	}
}
