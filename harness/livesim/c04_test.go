package app

// C04 – each segment goes too-early -> available -> gone at exactly the right instants.
// Online phase monitor (425 < 200 < 410) per URL over an increasing sweep of nowMS around the availability instant A
// (computed from the VoD files) and around A + timeShiftBufferDepth.

import (
	"fmt"
	"math/big"
	"regexp"
	"strconv"
	"strings"
	"testing"

	"verif.local/vlib/ora"
	"verif.local/vlib/rep"
)

type vfC04Cfg struct {
	mode   string // number | time | tlnr
	snr    int    // -1 unset
	startS int64
	tsbd   int    // -1 unset (60)
	ato    string // "" | "inf" | seconds, multiple of 1 ms
	atoMS  int64
}

func (c vfC04Cfg) url() string {
	var parts []string
	switch c.mode {
	case "time":
		parts = append(parts, "segtimeline_1")
	case "tlnr":
		parts = append(parts, "segtimelinenr_1")
	}
	if c.snr >= 0 {
		parts = append(parts, fmt.Sprintf("snr_%d", c.snr))
	}
	if c.startS != 0 {
		parts = append(parts, fmt.Sprintf("start_%d", c.startS))
	}
	if c.tsbd >= 0 {
		parts = append(parts, fmt.Sprintf("tsbd_%d", c.tsbd))
	}
	if c.ato != "" {
		parts = append(parts, "ato_"+c.ato)
	}
	s := ""
	for i, p := range parts {
		if i > 0 {
			s += "/"
		}
		s += p
	}
	return s
}

func (c vfC04Cfg) startNr() int64 {
	if c.snr >= 0 {
		return int64(c.snr)
	}
	return 0
}

func (c vfC04Cfg) tsbdMS() int64 {
	if c.tsbd >= 0 {
		return int64(c.tsbd) * 1000
	}
	return 60000
}

var vfTooEarlyRe = regexp.MustCompile(`too early by (-?\d+)ms`)

func vfAtoStr(ms int64) string {
	return fmt.Sprintf("%d.%03d", ms/1000, ms%1000)
}

func TestVerifC04(t *testing.T) {
	r := rep.New("C04")
	r.Rule("case = (asset, representation, cfg{mode,snr,start,tsbd,ato}, live index n) swept over ~25 instants; class = (asset, rep kind, mode, start>0, snr>0, " +
		"tsbd, ato class, position of n {0,1,N-1,N,2N+1,far}); counted when the whole sweep was judged by the phase monitor")
	r.Assume("availability instant A = ceil(1000*(AST + segment end/timescale - ato)) from the VoD files; audio: any instant between the reference video segment's A and the audio segment's own A is accepted for the 425->200 transition")
	r.Assume("after A+tsbd only monotonicity is demanded (the server's extra 10 s margin is not); body check only for t >= AST")
	defer func() { r.Done(); t.Log(r.Summary()) }()

	worlds := vfWorlds(t, false)
	caseNo := 0
	sampled := 0
	for wi, w := range worlds {
		a := w.Asset
		for _, rid := range a.RepIDs {
			rp := a.Reps[rid]
			if lt, ok := a.LoopTicks(rp); !ok || (rp.ContentType != "audio" && lt != rp.Dur()) {
				continue
			}
			if rp.ContentType == "audio" && rp.SampleDur == 0 {
				continue
			}
			N := int64(rp.N())
			if rp.ContentType == "audio" {
				N = int64(a.Ref.N())
			}
			segDurMS := a.LoopMS / int64(a.Ref.N())
			frac := func(num, den int64) int64 { return segDurMS * num / den }
			cfgs := []vfC04Cfg{
				{"number", -1, 0, -1, "", 0}, {"time", -1, 0, -1, "", 0}, {"tlnr", -1, 0, -1, "", 0},
				{"number", 3, 1000, 1, "", 0}, {"time", -1, 1000, 0, "", 0}, {"tlnr", 5, 1_700_000_000, 172800, "", 0},
				{"number", -1, 0, 60, vfAtoStr(frac(1, 4)), frac(1, 4)}, {"time", 2, 0, 1, vfAtoStr(frac(1, 4)), frac(1, 4)},
				{"number", -1, 1000, -1, vfAtoStr(segDurMS - 40), segDurMS - 40}, {"tlnr", -1, 0, 0, vfAtoStr(frac(3, 2)), frac(3, 2)},
				{"number", -1, 0, -1, "inf", 0}, {"number", 4, 1000, 1, "inf", 0}, {"time", 7, 1_700_000_000, 60, "", 0},
				// offsets that are not a whole number of milliseconds: the availability instant then lies between two request instants
				{"number", -1, 0, 60, "0.6667", 666}, {"time", -1, 1000, 7, "0.3333", 333}, {"tlnr", 2, 0, 60, "0.0004", 0},
			}
			if rp.ContentType == "image" {
				cfgs = []vfC04Cfg{{"number", -1, 0, -1, "", 0}, {"time", 3, 1000, 1, "", 0}, {"tlnr", -1, 0, 0, vfAtoStr(frac(1, 4)), frac(1, 4)}}
			}
			if !r.Thorough() {
				k := (wi + caseNo + int(r.Seed)) % len(cfgs)
				cfgs = []vfC04Cfg{cfgs[0], cfgs[1%len(cfgs)], cfgs[(3+k)%len(cfgs)], cfgs[(6+k)%len(cfgs)], cfgs[(9+k)%len(cfgs)], cfgs[len(cfgs)-1-k%3]}
			}
			for _, cfg := range cfgs {
				type pos struct {
					n    int64
					name string
				}
				ps := []pos{{0, "0"}, {1, "1"}, {N - 1, "N-1"}, {N, "N"}, {2*N + 1, "2N+1"}, {(100000+r.Seed%977)*N + N/2, "far"}}
				for _, p := range ps {
					caseNo++
					if !r.Begin(caseNo, fmt.Sprintf("%s %s %q n=%d", w.Ref.Path, rid, cfg.url(), p.n)) {
						continue
					}
					vfC04Sweep(r, w, rp, cfg, p.n, p.name, &sampled)
				}
			}
		}
		// 404s: number below startNumber, unknown representation, unknown asset
		caseNo++
		if r.Begin(caseNo, "404 "+w.Ref.Path) {
			vfC04NotFound(r, w)
		}
	}
	if r.NViolations() > 0 {
		t.Fail()
	}
}

// vfAtoUS parses an availabilityTimeOffset given in seconds with up to 6 decimals into microseconds (exactly).
func vfAtoUS(s string) int64 {
	if s == "" || s == "inf" {
		return 0
	}
	ip, fp, _ := strings.Cut(s, ".")
	for len(fp) < 6 {
		fp += "0"
	}
	i, _ := strconv.ParseInt(ip, 10, 64)
	f, _ := strconv.ParseInt(fp[:6], 10, 64)
	return i*1_000_000 + f
}

// vfAvailExact = first whole millisecond t with t >= AST + end/timescale - ato (exact integers).
func vfAvailExact(end uint64, ts uint64, startS int64, atoUS int64) int64 {
	num := new(big.Int).Mul(new(big.Int).SetUint64(end), big.NewInt(1_000_000))
	num.Sub(num, new(big.Int).Mul(big.NewInt(atoUS), new(big.Int).SetUint64(ts)))
	den := new(big.Int).Mul(new(big.Int).SetUint64(ts), big.NewInt(1000))
	q, m := new(big.Int).DivMod(num, den, new(big.Int)) // floor division, m >= 0
	ms := q.Int64()
	if m.Sign() != 0 {
		ms++
	}
	return startS*1000 + ms
}

func vfC04Sweep(r *rep.R, w vfWorld, rp *ora.Rep, cfg vfC04Cfg, n int64, posName string, sampled *int) {
	a := w.Asset
	atoUS := vfAtoUS(cfg.ato)
	inf := cfg.ato == "inf"
	mode := cfg.mode
	if rp.ContentType == "image" {
		mode = "number"
	}
	// availability instants
	var Alo, Ahi int64 // 425 demanded for t < Alo, 200 demanded for t >= Ahi (within window)
	var u string
	if rp.ContentType == "audio" {
		as, ae := a.AudioSegTimes(rp, n)
		_, _, ve := a.LiveSeg(a.Ref, n)
		Av := vfAvailExact(ve, a.Ref.Timescale, cfg.startS, atoUS)
		Aa := vfAvailExact(ae, rp.Timescale, cfg.startS, atoUS)
		Alo, Ahi = Av, Aa
		if Aa < Av {
			Alo, Ahi = Aa, Av
		}
		if mode == "time" {
			u = vfMediaURL(rp, as)
		} else {
			u = vfMediaURL(rp, uint64(cfg.startNr()+n))
		}
	} else {
		_, ws, we := a.LiveSeg(rp, n)
		Alo = vfAvailExact(we, rp.Timescale, cfg.startS, atoUS)
		Ahi = Alo
		if mode == "time" {
			u = vfMediaURL(rp, ws)
		} else {
			u = vfMediaURL(rp, uint64(cfg.startNr()+n))
		}
	}
	ast := cfg.startS * 1000
	if inf {
		Alo, Ahi = ast, ast
	}
	tsbd := cfg.tsbdMS()
	var ts []int64
	add := func(x int64) {
		if x >= 0 {
			ts = append(ts, x)
		}
	}
	for _, d := range []int64{-60000, -1000, -2, -1} {
		add(Alo + d)
	}
	add(Alo)
	add(Ahi)
	for _, d := range []int64{1, 2, 999} {
		add(Ahi + d)
	}
	for k := int64(1); k <= 8; k++ {
		add(Ahi + tsbd*k/9)
	}
	add(Ahi + tsbd - 1)
	add(Alo + tsbd)
	for _, d := range []int64{1, 9999, 10001, 60000, 10_000_000} {
		add(Ahi + tsbd + d)
	}
	// sort increasing, unique
	for i := 1; i < len(ts); i++ {
		for j := i; j > 0 && ts[j] < ts[j-1]; j-- {
			ts[j], ts[j-1] = ts[j-1], ts[j]
		}
	}
	phase := 0 // 0: 425, 1: 200, 2: 410
	var trace []string
	sigp := rp.ContentType + ":" + cfg.mode + ":"
	if cfg.startS != 0 {
		sigp += "start>0:"
	}
	if cfg.ato != "" {
		if inf {
			sigp += "ato=inf:"
		} else {
			sigp += "ato>0:"
		}
	}
	var last int64 = -1
	fullURL := ""
	for _, tm := range ts {
		if tm == last {
			continue
		}
		last = tm
		fullURL = vfURL(cfg.url(), w.Ref.Path, u, tm)
		resp := vfGet(w.Srv, fullURL)
		r.Eval(1)
		trace = append(trace, fmt.Sprintf("%+d:%d", tm-Alo, resp.Code))
		det := func(what string) map[string]any {
			return map[string]any{"url": fullURL, "n": n, "A_ms": Alo, "A_hi_ms": Ahi, "tsbd_ms": tsbd, "what": what, "sweep(t-A:status)": fmt.Sprint(trace), "body": vfTrunc(resp.Body, 80)}
		}
		var ph int
		switch resp.Code {
		case 425:
			ph = 0
		case 200:
			ph = 1
		case 410:
			ph = 2
		default:
			r.Violation(sigp+"unexpected-status-"+strconv.Itoa(resp.Code), det("status outside {425,200,410}"))
			return
		}
		if ph < phase {
			r.Violation(sigp+"phase-went-backwards", det(fmt.Sprintf("phase %d after %d", ph, phase)))
			return
		}
		phase = ph
		switch {
		case tm < ast:
			if resp.Code != 425 {
				r.Violation(sigp+"not-425-before-stream-start", det(""))
				return
			}
		case tm < Alo:
			if resp.Code != 425 {
				r.Violation(sigp+"available-before-availability-time", det(fmt.Sprintf("t=A%+d", tm-Alo)))
				return
			}
			if m := vfTooEarlyRe.FindSubmatch(resp.Body); m == nil {
				r.Violation(sigp+"425-body-without-remaining-ms", det(""))
				return
			} else if rp.ContentType != "audio" || Alo == Ahi {
				x, _ := strconv.ParseInt(string(m[1]), 10, 64)
				if d := x - (Alo - tm); d < -1 || d > 1 {
					r.Violation(sigp+"425-body-remaining-ms-wrong", det(fmt.Sprintf("says %d, remaining %d", x, Alo-tm)))
					return
				}
			}
		case tm >= Ahi && tm <= Alo+tsbd:
			if resp.Code != 200 {
				what := "not-available-inside-window"
				if tm == Ahi {
					what = "not-available-at-availability-time"
				}
				r.Violation(sigp+what+"-status-"+strconv.Itoa(resp.Code), det(fmt.Sprintf("t=A%+d", tm-Ahi)))
				return
			}
		case inf && tm >= ast:
			if resp.Code != 200 {
				r.Violation(sigp+"ato-inf-not-always-available", det(""))
				return
			}
		}
	}
	atoc := "0"
	if inf {
		atoc = "inf"
	} else if atoUS > 0 {
		atoc = ">0"
	}
	r.Class(fmt.Sprintf("%s|%s|%s|start>0=%v|snr>0=%v|tsbd=%d|ato=%s|n=%s", w.Ref.Path, rp.ContentType, cfg.mode, cfg.startS != 0, cfg.startNr() != 0, cfg.tsbd, atoc, posName))
	if *sampled < 4 && n > 0 {
		*sampled++
		r.Sample(map[string]any{"url": fullURL, "n": n, "A_ms": Alo, "sweep(t-A:status)": fmt.Sprint(trace)})
	}
}

func vfC04NotFound(r *rep.R, w vfWorld) {
	a := w.Asset
	for _, rid := range a.RepIDs {
		rp := a.Reps[rid]
		for _, mode := range []string{"", "segtimelinenr_1"} {
			for _, below := range []int64{0, 4} {
				cfg := mode
				if cfg != "" {
					cfg += "/"
				}
				cfg += "snr_5"
				u := vfURL(cfg, w.Ref.Path, vfMediaURL(rp, uint64(below)), 100000)
				resp := vfGet(w.Srv, u)
				r.Eval(1)
				r.Class("404-below-startnumber|" + rp.ContentType + "|" + mode)
				if resp.Code != 404 {
					sig := rp.ContentType + ":number-below-startNumber-status-" + strconv.Itoa(resp.Code)
					if resp.Code == 500 && len(resp.Body) == 0 {
						sig = rp.ContentType + ":number-below-startNumber-crash"
					}
					r.Violation(sig, map[string]any{"url": u, "body": vfTrunc(resp.Body, 80)})
				}
			}
		}
	}
	first := a.Reps[a.RepIDs[0]]
	for _, u := range []string{
		vfURL("", w.Ref.Path, "nosuchrep/1.m4s", 100000),
		vfURL("segtimeline_1", w.Ref.Path, "nosuchrep/0.m4s", 100000),
		vfURL("", "no/such/asset", vfMediaURL(first, 10), 100000),
		vfURL("tsbd_5", w.Ref.Path+"x", vfMediaURL(first, 10), 100000),
	} {
		resp := vfGet(w.Srv, u)
		r.Eval(1)
		r.Class("404-unknown|" + w.Ref.Path)
		if resp.Code != 404 {
			r.Violation("unknown-rep-or-asset-status-"+strconv.Itoa(resp.Code), map[string]any{"url": u, "body": vfTrunc(resp.Body, 80)})
		}
	}
}
