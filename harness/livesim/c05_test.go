package app

// C05 – the MPD only moves forward, and publishTime identifies its content.
// Relational monitor over the sequence of MPDs of an increasing sweep of instants.

import (
	"fmt"
	"sort"
	"strings"
	"testing"

	"verif.local/vlib/ora"
	"verif.local/vlib/rep"
)

type vfC05Obs struct {
	t       int64
	pub     int64
	first   uint64 // start time of first listed reference segment (media ticks)
	last    uint64
	n       int
	hash    uint64
	hashNoP uint64 // body hash with the publishTime value blanked
}

func TestVerifC05(t *testing.T) {
	r := rep.New("C05")
	r.Rule("case = (asset, cfg{type,ato,tsbd,start,periods,stop}) swept over increasing instants (both sides of every availability and window breakpoint over >= 2 loops, plus seeded instants); " +
		"class = (asset, cfg tag, relation checked: edge-monotone | publishTime<=now | publishTime-monotone | publishTime=change-instant | same-pt-same-body | diff-body-diff-pt | number-constant | static-after-stop)")
	r.Assume("publishTime compared at millisecond resolution; 'instant of the most recent change' = latest instant <= now at which the served MPD body changed, located by the sweep itself (bodies at b-1 and b)")
	defer func() { r.Done(); t.Log(r.Summary()) }()
	worlds := vfWorlds(t, false)
	caseNo := 0
	sampled := 0
	for wi, w := range worlds {
		a := w.Asset
		segMS := a.LoopMS / int64(a.Ref.N())
		ms := func(x int64) string { return fmt.Sprintf("%d.%03d", x/1000, x%1000) }
		type cfgT struct {
			mode   string
			tsbd   int
			atoMS  int64
			startS int64
			extra  string
			tag    string
		}
		all := []cfgT{
			{"time", 60, 0, 0, "", "time"}, {"tlnr", 7, 0, 0, "", "tlnr:tsbd7"}, {"time", 7, segMS / 2, 0, "", "time:ato"},
			{"tlnr", 60, segMS - 40, 1000, "", "tlnr:ato:start"}, {"time", 7, 0, 1_700_000_000, "", "time:start"},
			{"time", int(2 * segMS / 1000), 0, 0, "", "time:tsbd=2seg"}, {"tlnr", 11, 0, 1000, "", "tlnr:tsbd11"},
			{"number", 60, 0, 0, "", "number"}, {"number", 7, segMS / 4, 1000, "", "number:ato"},
		}
		cfgs := all
		if !r.Thorough() {
			cfgs = []cfgT{all[0], all[1+(wi+int(r.Seed))%3], all[4+(wi+int(r.Seed))%3], all[7+wi%2]}
		}
		if r.Thorough() {
			// seeded configurations: arbitrary time-shift depths (not multiples of the segment duration), offsets, start times off the loop grid
			rng := r.Rand(int64(5000 + wi))
			for k := 0; k < 10; k++ {
				mode := []string{"time", "tlnr"}[rng.Intn(2)]
				tsbd := 1 + rng.Intn(90)
				ato := []int64{0, 0, rng.Int63n(segMS), segMS - 1 - rng.Int63n(segMS/4+1)}[rng.Intn(4)]
				st := []int64{0, 1 + rng.Int63n(50_000), 1_600_000_000 + rng.Int63n(100_000_000)}[rng.Intn(3)]
				cfgs = append(cfgs, cfgT{mode, tsbd, ato, st, "", mode + ":seeded"})
			}
		}
		// present-day start time with offsets that have no short binary representation (0.1 s, 0.3 s): the publishTime arithmetic
		// works on float seconds near 1.7e9, where one millisecond is only a few units in the last place
		cfgs = append(cfgs, cfgT{"time", 60, 100, 1_700_000_000, "", "time:ato0.1:now"})
		if r.Thorough() || wi%2 == 0 {
			cfgs = append(cfgs, cfgT{"tlnr", 17, 300, 1_723_456_789, "", "tlnr:ato0.3:now"})
		}
		// multi-period: a period duration that is a multiple of the (average) segment duration; values the server refuses are skipped below
		var pdS int64
		for _, cand := range []int64{10, 12, 20, 30, 60, 120} {
			if cand*1000%segMS == 0 && cand*1000 >= 2*segMS {
				pdS = cand
				break
			}
		}
		if pdS > 0 {
			per := fmt.Sprintf("periods_%d", 3600/pdS)
			pc := []cfgT{{"time", 40, 0, 0, per, "time:periods"}, {"tlnr", 25, segMS / 2, 0, per, "tlnr:periods:ato"}, {"time", 17, segMS - 40, 0, per, "time:periods:ato"}}
			if r.Thorough() {
				cfgs = append(cfgs, pc...)
			} else {
				cfgs = append(cfgs, pc[(wi+int(r.Seed))%3])
			}
		}
		for _, c := range cfgs {
			var parts []string
			switch c.mode {
			case "time":
				parts = append(parts, "segtimeline_1")
			case "tlnr":
				parts = append(parts, "segtimelinenr_1")
			}
			parts = append(parts, fmt.Sprintf("tsbd_%d", c.tsbd))
			if c.atoMS > 0 {
				parts = append(parts, "ato_"+ms(c.atoMS))
			}
			if c.startS != 0 {
				parts = append(parts, fmt.Sprintf("start_%d", c.startS))
			}
			if c.extra != "" {
				parts = append(parts, c.extra)
			}
			cfgURL := strings.Join(parts, "/")
			// instants: right after start, then breakpoints over 2 loops starting some loops in
			var ts []int64
			N := int64(a.Ref.N())
			tsbdMS := int64(c.tsbd) * 1000
			ts = append(ts, c.startS*1000, c.startS*1000+1)
			addBP := func(n int64) {
				b := a.AvailMS(a.Ref, n, c.startS, c.atoMS)
				for _, d := range []int64{-1, 0, 1, segMS / 3} {
					ts = append(ts, b+d, b+tsbdMS+d)
				}
				// window start moves when the end of a segment + tsbd passes: end(n)+tsbd (no ato)
				e := a.AvailMS(a.Ref, n, c.startS, 0)
				ts = append(ts, e+tsbdMS-1, e+tsbdMS, e+tsbdMS+1)
			}
			span := 2*N + 2
			if !r.Thorough() && span > 10 {
				span = 10
			}
			for n := int64(0); n < 3 && n < span; n++ {
				addBP(n)
			}
			rng := r.Rand(int64(wi*100 + caseNo))
			off := (20 + rng.Int63n(20)) * N
			for n := off; n < off+span; n++ {
				addBP(n)
			}
			for i := 0; i < 10; i++ {
				ts = append(ts, a.AvailMS(a.Ref, off, c.startS, 0)+rng.Int63n(3*a.LoopMS))
			}
			if c.extra != "" && pdS > 0 {
				// period starts (and the instants at which the oldest period leaves the window) inside the swept stretch
				lo := a.AvailMS(a.Ref, off, c.startS, 0)
				for k := lo / (pdS * 1000); k <= lo/(pdS*1000)+3; k++ {
					for _, d := range []int64{-1, 0, 1, 700} {
						ts = append(ts, k*pdS*1000+d, k*pdS*1000+tsbdMS+d)
					}
				}
			}
			sort.Slice(ts, func(i, j int) bool { return ts[i] < ts[j] })
			caseNo++
			if !r.Begin(caseNo, fmt.Sprintf("%s/%s %q", w.Ref.Path, w.Ref.MPD, cfgURL)) {
				continue
			}
			var obs []vfC05Obs
			byPub := map[int64]vfC05Obs{}
			byBody := map[uint64]vfC05Obs{}
			var prev *vfC05Obs
			var lastChange int64 = -1 // instant at which the body (without publishTime) last changed, known exactly only when t-1 was also sampled
			var lastChangeExact bool
			cls := func(rel string) { r.Class(fmt.Sprintf("%s|%s|%s", w.Ref.Path+"/"+w.Ref.MPD, c.tag, rel)) }
			for i, tm := range ts {
				if tm < c.startS*1000 || (i > 0 && tm == ts[i-1]) {
					continue
				}
				mu := vfURL(cfgURL, w.Ref.Path, w.Ref.MPD, tm)
				resp := vfGet(w.Srv, mu)
				r.Eval(1)
				if c.extra != "" && resp.Code >= 400 && strings.Contains(string(resp.Body), "not a multiple of segment duration") {
					cls("periods-value-refused") // judged under C06
					break
				}
				if resp.Code != 200 {
					sig := fmt.Sprintf("mpd-status-%d:%s", resp.Code, c.mode)
					if len(resp.Body) == 0 {
						sig = "mpd-crash:" + c.mode
					}
					r.Violation(sig, map[string]any{"url": mu, "body": vfTrunc(resp.Body, 100)})
					break
				}
				m, err := ora.ParseMPD(resp.Body)
				if err != nil {
					r.Violation("mpd-unparseable", map[string]any{"url": mu})
					break
				}
				pub, ok := ora.TimeMS(m.Publish)
				if !ok {
					r.Violation("publishTime-unparseable", map[string]any{"url": mu, "publishTime": m.Publish})
					break
				}
				o := vfC05Obs{t: tm, pub: pub, hash: vfHash(resp.Body)}
				o.hashNoP = vfHash([]byte(strings.ReplaceAll(string(resp.Body), m.Publish, "@PT@")))
				for _, d := range m.TimelineDecls() {
					if d.Rep == a.Ref.ID {
						if o.n == 0 {
							o.first = d.T
						}
						o.last = d.T
						o.n++
					}
				}
				det := func(what string) map[string]any {
					mm := map[string]any{"url": mu, "publishTime": m.Publish, "what": what}
					if prev != nil {
						mm["previous"] = fmt.Sprintf("t=%d publishTime_ms=%d first=%d last=%d", prev.t, prev.pub, prev.first, prev.last)
					}
					return mm
				}
				sigp := c.mode + ":"
				if pub > tm {
					r.Violation(sigp+"publishTime-later-than-request-instant", det(fmt.Sprintf("publishTime %d ms > now %d ms", pub, tm)))
				}
				cls("publishTime<=now")
				if prev != nil {
					if c.mode != "number" && prev.n > 0 && o.n > 0 && (o.first < prev.first || o.last < prev.last) {
						r.Violation(sigp+"timeline-edge-moved-backwards", det(fmt.Sprintf("first %d last %d", o.first, o.last)))
					}
					if pub < prev.pub {
						r.Violation(sigp+"publishTime-decreased", det(""))
					}
					cls("edge-monotone")
					cls("publishTime-monotone")
					if o.hashNoP != prev.hashNoP {
						lastChange = tm
						lastChangeExact = prev.t == tm-1
					}
				}
				if p, ok := byPub[pub]; ok && p.hash != o.hash {
					what := "window-start-moved"
					if p.last != o.last {
						what = "live-edge-moved"
					}
					r.Violation(sigp+"same-publishTime-different-content:"+what, det(fmt.Sprintf("also at t=%d (first=%d last=%d) vs now first=%d last=%d", p.t, p.first, p.last, o.first, o.last)))
				} else if !ok {
					byPub[pub] = o
				}
				cls("same-pt-same-body")
				if p, ok := byBody[o.hashNoP]; ok && p.pub != pub {
					r.Violation(sigp+"same-content-different-publishTime", det(fmt.Sprintf("also at t=%d with publishTime_ms=%d", p.t, p.pub)))
				} else if !ok {
					byBody[o.hashNoP] = o
				}
				if c.mode != "number" && lastChange >= 0 && lastChangeExact {
					// publishTime must equal the instant of the most recent change (both located at ms resolution)
					if pub != lastChange {
						kind := "rounded-or-stale"
						if pub > lastChange {
							kind = "after-change"
						}
						r.Violation(sigp+"publishTime-is-not-the-instant-of-the-most-recent-change:"+kind, det(fmt.Sprintf("content last changed at t=%d ms, publishTime=%d ms", lastChange, pub)))
					}
					cls("publishTime=change-instant")
				}
				if c.mode == "number" {
					if prev != nil && o.hash != prev.hash {
						r.Violation("number:mpd-changed-although-plain-number-template", det(""))
					}
					cls("number-constant")
				} else if c.mode != "number" {
					// live edge advances by exactly one segment at the instant the segment becomes available
					newest := a.NewestAvail(a.Ref, tm, c.startS, c.atoMS)
					if newest >= 0 && o.n > 0 {
						_, ws, _ := a.LiveSeg(a.Ref, newest)
						if o.last != ws {
							r.Violation(sigp+"live-edge-not-at-newest-available-segment", det(fmt.Sprintf("last listed starts %d, newest available n=%d starts %d", o.last, newest, ws)))
						}
					}
					cls("edge-position")
				}
				obs = append(obs, o)
				prev = &obs[len(obs)-1]
			}
			if sampled < 3 && len(obs) > 5 {
				sampled++
				var s []string
				for _, o := range obs[3:min(len(obs), 9)] {
					s = append(s, fmt.Sprintf("t=%d pt=%d first=%d last=%d", o.t, o.pub, o.first, o.last))
				}
				r.Sample(map[string]any{"mpd": vfURL(cfgURL, w.Ref.Path, w.Ref.MPD, 0), "sweep": s})
			}
		}
		// static after stop
		caseNo++
		if r.Begin(caseNo, "stop "+w.Ref.Path) {
			for _, c := range []struct {
				cfg         string
				start, stop int64
			}{{"segtimeline_1/stop_100", 0, 100}, {"start_1000/stop_1077", 1000, 1077}, {"segtimelinenr_1/start_50/stop_60/tsbd_5", 50, 60}} {
				for _, tm := range []int64{c.stop*1000 - 1, c.stop * 1000, c.stop*1000 + 1, c.stop*1000 + 3_600_000} {
					mu := vfURL(c.cfg, w.Ref.Path, w.Ref.MPD, tm)
					resp := vfGet(w.Srv, mu)
					r.Eval(1)
					if resp.Code != 200 {
						r.Violation(fmt.Sprintf("stop:mpd-status-%d", resp.Code), map[string]any{"url": mu, "body": vfTrunc(resp.Body, 100)})
						continue
					}
					m, err := ora.ParseMPD(resp.Body)
					if err != nil {
						continue
					}
					after := tm > c.stop*1000
					if after {
						d, ok := ora.DurMS(m.MPDur)
						if m.Type != "static" || !ok || d != (c.stop-c.start)*1000 {
							r.Violation("stop:not-static-with-duration-stop-minus-start", map[string]any{"url": mu, "type": m.Type, "mediaPresentationDuration": m.MPDur})
						}
					} else if m.Type != "dynamic" {
						r.Violation("stop:static-before-stop-time", map[string]any{"url": mu, "type": m.Type})
					}
					r.Class(fmt.Sprintf("%s|stop|after=%v", w.Ref.Path, after))
				}
			}
		}
	}
	if r.NViolations() > 0 {
		t.Fail()
	}
}
