package app

// C06 – splitting into periods preserves the timeline and the segment identities.
// Differential monitor: MPD(periods_N)@t against MPD()@t, both evaluated by the independent DASH reader.

import (
	"bytes"
	"fmt"
	"strconv"
	"strings"
	"sync"
	"sync/atomic"
	"testing"

	"verif.local/vlib/ora"
	"verif.local/vlib/rep"
)

type vfAbsDecl struct {
	ora.Decl
	absNum uint64 // presentation start relative to AST in units of 1/(ts*1000): (PStart*ts + (T-PTO)*1000)
}

func vfAbs(ds []ora.Decl) []vfAbsDecl {
	out := make([]vfAbsDecl, len(ds))
	for i, d := range ds {
		out[i] = vfAbsDecl{d, uint64(d.PStart)*d.TS + (d.T-d.PTO)*1000}
	}
	return out
}

func TestVerifC06(t *testing.T) {
	r := rep.New("C06")
	r.Rule("acceptance: case = (asset, MPD type, periods-per-hour N in 1..3600); preservation: case = (asset, type, accepted N, extra cfg, instant) with instants at period boundaries, " +
		"window edges, segment availability instants (+-1 ms) and seeded; class = (asset, type, N bucket, instant kind, relation); counted when the multi-period MPD was compared with the single-period MPD")
	r.Assume("a period-per-hour value is 'accepted' iff the MPD request is answered 200; rejection is demanded when 1000*floor(3600/N) is not a multiple of the (constant) reference segment duration")
	r.Assume("availabilityStartTime is kept at 0 (periods are cut on the absolute clock; the statement does not range over start times)")
	defer func() { r.Done(); t.Log(r.Summary()) }()
	worlds := vfWorlds(t, false)
	var wg sync.WaitGroup
	sem := make(chan struct{}, 14)
	var sampled int32
	for wi, w := range worlds {
		if w.Asset.Ref.ContentType != "video" {
			continue
		}
		wi, w := wi, w
		wg.Add(1)
		sem <- struct{}{}
		go func() {
			defer func() { <-sem; wg.Done() }()
			vfC06World(r, wi, w, &sampled)
		}()
	}
	wg.Wait()
	if r.NViolations() > 0 {
		t.Fail()
	}
}

func vfC06World(r *rep.R, wi int, w vfWorld, sampled *int32) {
	caseNo := wi * 100000
	{
		a := w.Asset
		constDur := true
		for _, s := range a.Ref.Segs {
			if s.Dur() != a.Ref.Segs[0].Dur() {
				constDur = false
			}
		}
		segTicks := a.Ref.Segs[0].Dur()
		modes := []string{"number", "time", "tlnr"}
		// ---- acceptance over N = 1..3600
		accept := map[string][]int{}
		for mi, mode := range modes {
			if !r.Thorough() && (wi+mi+int(r.Seed))%3 != 0 {
				// quick: one type per asset exhaustively, the others on a sample
			}
			caseNo++
			if !r.Begin(caseNo, fmt.Sprintf("accept %s %s", w.Ref.Path, mode)) {
				continue
			}
			step := 1
			if !r.Thorough() && (wi+mi+int(r.Seed))%3 != 0 {
				step = 37
			}
			for N := 1; N <= 3600; N += step {
				pd := 3600 / N
				cfg := vfC06Cfg(mode, N, "")
				mu := vfURL(cfg, w.Ref.Path, w.Ref.MPD, 7_300_000)
				resp := vfGet(w.Srv, mu)
				r.Eval(1)
				multiple := (uint64(pd)*a.Ref.Timescale)%segTicks == 0
				if resp.Code == 200 {
					accept[mode] = append(accept[mode], N)
					if constDur && !multiple {
						r.Violation("accepted-although-period-is-not-a-multiple-of-the-segment-duration:"+mode, map[string]any{"url": mu, "period_s": pd, "segment_duration": fmt.Sprintf("%d/%d s", segTicks, a.Ref.Timescale)})
					}
				} else {
					if len(resp.Body) == 0 {
						r.Violation("crash-on-periods:"+mode, map[string]any{"url": mu, "status": resp.Code})
					} else if constDur && multiple && pd > 0 {
						r.Violation("rejected-although-period-is-a-multiple-of-the-segment-duration:"+mode, map[string]any{"url": mu, "status": resp.Code, "body": vfTrunc(resp.Body, 100)})
					}
				}
				nb := "1-10"
				switch {
				case N > 1800:
					nb = ">1800"
				case N > 100:
					nb = "101-1800"
				case N > 10:
					nb = "11-100"
				}
				r.Class(fmt.Sprintf("%s|%s|accept|N=%s|ok=%v", w.Ref.Path, mode, nb, resp.Code == 200))
			}
		}
		// ---- preservation for accepted N
		for _, mode := range modes {
			acc := accept[mode]
			if len(acc) == 0 {
				continue
			}
			var pick []int
			seen := map[int]bool{}
			add := func(n int) {
				if !seen[n] {
					seen[n] = true
					pick = append(pick, n)
				}
			}
			add(acc[0])
			add(acc[len(acc)-1])
			add(acc[len(acc)/2])
			rng := r.Rand(int64(wi*10 + len(mode)))
			for i := 0; i < r.Pick(2, 12); i++ {
				add(acc[rng.Intn(len(acc))])
			}
			for _, N := range pick {
				pd := int64(3600 / N)
				for _, extra := range []string{"", "continuous_1", "tsbd_7", "snr_3/tsbd_" + strconv.Itoa(int(2*pd+3))} {
					if !r.Thorough() && extra != "" && (N+len(extra))%2 == 0 {
						continue
					}
					tsbdMS := int64(60000)
					if strings.Contains(extra, "tsbd_7") {
						tsbdMS = 7000
					} else if strings.Contains(extra, "tsbd_") {
						tsbdMS = (2*pd + 3) * 1000
					}
					k := 2 + rng.Int63n(500)
					b := k * pd * 1000 // a period boundary
					nAt := a.NewestAvail(a.Ref, b, 0, 0)
					ts := []struct {
						t    int64
						kind string
					}{{b - 1, "boundary-1"}, {b, "boundary"}, {b + 1, "boundary+1"}, {b + tsbdMS - 1, "boundary+tsbd-1"}, {b + tsbdMS, "boundary+tsbd"}, {b + tsbdMS + 1, "boundary+tsbd+1"},
						{a.AvailMS(a.Ref, nAt+1, 0, 0), "A(n)"}, {a.AvailMS(a.Ref, nAt+1, 0, 0) - 1, "A(n)-1"}, {b + rng.Int63n(pd*1000+1), "seeded"},
						{(3600/a.LoopMS*a.LoopMS + a.LoopMS) * 1000 / 1000, "loop-wrap-near-hour"}}
					for _, in := range ts {
						caseNo++
						if !r.Begin(caseNo, fmt.Sprintf("%s %s N=%d %q t=%d", w.Ref.Path, mode, N, extra, in.t)) {
							continue
						}
						vfC06Compare(r, w, mode, N, extra, in.t, in.kind, pd, sampled)
					}
				}
			}
		}
	}
}

func vfC06Cfg(mode string, N int, extra string) string {
	var p []string
	switch mode {
	case "time":
		p = append(p, "segtimeline_1")
	case "tlnr":
		p = append(p, "segtimelinenr_1")
	}
	if N > 0 {
		p = append(p, fmt.Sprintf("periods_%d", N))
	}
	if extra != "" && !(N == 0 && extra == "continuous_1") {
		p = append(p, extra)
	}
	return strings.Join(p, "/")
}

func vfC06Compare(r *rep.R, w vfWorld, mode string, N int, extra string, nowMS int64, kind string, pd int64, sampled *int32) {
	cfgM := vfC06Cfg(mode, N, extra)
	cfgS := vfC06Cfg(mode, 0, extra)
	mu := vfURL(cfgM, w.Ref.Path, w.Ref.MPD, nowMS)
	su := vfURL(cfgS, w.Ref.Path, w.Ref.MPD, nowMS)
	mr, sr := vfGet(w.Srv, mu), vfGet(w.Srv, su)
	r.Eval(2)
	tag := mode
	if strings.Contains(extra, "snr_") {
		tag += ":snr>0"
	}
	if mr.Code != 200 || sr.Code != 200 {
		sig := fmt.Sprintf("mpd-status-%d-%d:%s", mr.Code, sr.Code, tag)
		if (mr.Code == 500 && len(mr.Body) == 0) || (sr.Code == 500 && len(sr.Body) == 0) {
			sig = "mpd-crash:" + tag
		}
		r.Violation(sig, map[string]any{"multi": mu, "single": su, "body": vfTrunc(mr.Body, 100)})
		return
	}
	mm, err1 := ora.ParseMPD(mr.Body)
	sm, err2 := ora.ParseMPD(sr.Body)
	if err1 != nil || err2 != nil || len(sm.Periods) != 1 {
		r.Violation("mpd-unparseable", map[string]any{"multi": mu})
		return
	}
	det := func(what string) map[string]any {
		return map[string]any{"multi": mu, "single": su, "period_s": pd, "what": what}
	}
	// periods tile wall-clock time, ids stable
	var firstStart int64 = -1
	for i, p := range mm.Periods {
		ps, ok := ora.DurMS(p.Start)
		if !ok || ps%(pd*1000) != 0 {
			r.Violation("period-start-not-multiple-of-period-duration:"+tag, det(fmt.Sprintf("period %s start %q", p.ID, p.Start)))
			return
		}
		k := ps / (pd * 1000)
		if p.ID != "P"+strconv.FormatInt(k, 10) {
			r.Violation("period-id-not-stable:"+tag, det(fmt.Sprintf("period starting at %d s has id %s", ps/1000, p.ID)))
		}
		if i == 0 {
			firstStart = ps
		} else {
			prev, _ := ora.DurMS(mm.Periods[i-1].Start)
			if ps != prev+pd*1000 {
				r.Violation("periods-not-consecutive:"+tag, det(fmt.Sprintf("%s after start %d", p.Start, prev)))
			}
		}
		// continuity signalling
		for _, as := range p.AS {
			has := false
			for _, sp := range as.Supplemental {
				if sp.SchemeIdUri == "urn:mpeg:dash:period-continuity:2015" {
					has = true
				}
			}
			if has != (extra == "continuous_1") {
				r.Violation("period-continuity-signalling:"+tag, det(fmt.Sprintf("period %s continuity=%v requested=%v", p.ID, has, extra == "continuous_1")))
				break
			}
		}
	}
	if len(mm.Periods) == 0 {
		r.Violation("no-periods:"+tag, det(""))
		return
	}
	lastStart, _ := ora.DurMS(mm.Periods[len(mm.Periods)-1].Start)
	if nowMS >= lastStart+pd*1000 {
		r.Violation("current-period-missing:"+tag, det(fmt.Sprintf("last period starts at %d s", lastStart/1000)))
	}
	// declared segments
	var S, M []vfAbsDecl
	if mode == "number" {
		sa, _, e1 := sm.NumberDecls(nowMS)
		ma, _, e2 := mm.NumberDecls(nowMS)
		if e1 != nil || e2 != nil {
			return
		}
		S, M = vfAbs(sa), vfAbs(ma)
	} else {
		S, M = vfAbs(sm.TimelineDecls()), vfAbs(mm.TimelineDecls())
		// image AdaptationSets stay number-based
		sa, _, _ := sm.NumberDecls(nowMS)
		ma, _, _ := mm.NumberDecls(nowMS)
		S, M = append(S, vfAbs(sa)...), append(M, vfAbs(ma)...)
	}
	type key struct {
		rep string
		abs uint64
		ts  uint64
	}
	mIdx := map[key][]vfAbsDecl{}
	for _, d := range M {
		k := key{d.Rep, d.absNum, d.TS}
		mIdx[k] = append(mIdx[k], d)
	}
	sIdx := map[key]vfAbsDecl{}
	fetched := 0
	for _, s := range S {
		k := key{s.Rep, s.absNum, s.TS}
		sIdx[k] = s
		startMS := int64(s.absNum / s.TS) // floor ms
		if startMS < firstStart {
			continue
		}
		ms := mIdx[k]
		ck := s.CType
		if strings.HasPrefix(s.Rep, "time") {
			ck = "timesubs"
		}
		if len(ms) == 0 {
			if s.CType == "audio" && mode != "number" {
				// audio segments start up to one frame after the video boundary; one that starts in the previous period by the
				// video clock but after the boundary by its own clock is judged by its own start
			}
			r.Violation("segment-lost-by-period-split:"+ck+":"+tag, det(fmt.Sprintf("%s t=%d d=%d nr=%d (starts at %d ms) is in the single-period MPD but in no period", s.Rep, s.T, s.D, s.Nr, startMS)))
			return
		}
		if len(ms) > 1 {
			r.Violation("segment-in-more-than-one-period:"+ck+":"+tag, det(fmt.Sprintf("%s t=%d in periods %s and %s", s.Rep, s.T, ms[0].Period, ms[1].Period)))
			return
		}
		m := ms[0]
		// exact: period containing the start: PStart <= start < PStart+pd  (compare in 1/(ts*1000) units)
		if !(uint64(m.PStart)*m.TS <= s.absNum && s.absNum < uint64(m.PStart+pd*1000)*m.TS) {
			r.Violation("segment-in-wrong-period:"+ck+":"+tag, det(fmt.Sprintf("%s starts at %d ms but is listed in period %s [%d,%d) s", s.Rep, startMS, m.Period, m.PStart/1000, m.PStart/1000+pd)))
			return
		}
		if m.D != s.D {
			r.Violation("segment-duration-changed-by-period-split:"+ck+":"+tag, det(fmt.Sprintf("%s d=%d vs %d", s.Rep, m.D, s.D)))
			return
		}
		if m.Nr >= 0 && s.Nr >= 0 && m.Nr != s.Nr {
			r.Violation("segment-number-changed-by-period-split:"+ck+":"+tag, det(fmt.Sprintf("%s at %d ms: number %d in period %s, %d in the single-period MPD", s.Rep, startMS, m.Nr, m.Period, s.Nr)))
			return
		}
		// bytes behind the URL derived inside the period
		if fetched < 12 || s.absNum%7 == 0 {
			fetched++
			sb := vfGet(w.Srv, vfURL(cfgS, w.Ref.Path, s.URL, nowMS))
			mb := vfGet(w.Srv, vfURL(cfgM, w.Ref.Path, m.URL, nowMS))
			r.Eval(2)
			if sb.Code != mb.Code || !bytes.Equal(sb.Body, mb.Body) {
				r.Violation("segment-bytes-differ-between-period-and-single-period-url:"+ck+":"+tag, det(fmt.Sprintf("%s -> %d (%d bytes) vs %s -> %d (%d bytes)", m.URL, mb.Code, len(mb.Body), s.URL, sb.Code, len(sb.Body))))
				return
			}
			if mb.Code != 200 {
				r.Violation(fmt.Sprintf("declared-segment-status-%d:%s:%s", mb.Code, ck, tag), det(m.URL))
				return
			}
		}
	}
	for _, m := range M {
		if _, ok := sIdx[key{m.Rep, m.absNum, m.TS}]; !ok {
			ck := m.CType
			r.Violation("period-lists-segment-not-in-single-period-mpd:"+ck+":"+tag, det(fmt.Sprintf("%s period %s t=%d d=%d nr=%d pto=%d", m.Rep, m.Period, m.T, m.D, m.Nr, m.PTO)))
			return
		}
	}
	nb := "1-10"
	switch {
	case N > 1800:
		nb = ">1800"
	case N > 100:
		nb = "101-1800"
	case N > 10:
		nb = "11-100"
	}
	r.Class(fmt.Sprintf("%s|%s|N=%s|%s|extra=%s|periods=%d", w.Ref.Path, mode, nb, kind, extra, len(mm.Periods)))
	if len(mm.Periods) > 1 && atomic.AddInt32(sampled, 1) <= 3 {
		r.Sample(map[string]any{"multi": mu, "single": su, "periods": len(mm.Periods), "single_period_segments": len(S), "multi_period_segments": len(M)})
	}
}
