package app

// C07 – livesim2 responses are a pure function of (URL, time) and race-free.
// Differential replay of a request corpus: sequential reference vs concurrent / reordered / repeated runs on the same instance and
// fresh, metadata-writing and cache-loaded instances; built with -race (reports are collected by run.py);
// the ingest-session table is exercised concurrently and its recorded history is checked with porcupine.

import (
	"encoding/json"
	"fmt"
	"net/http"
	"net/http/httptest"
	"sort"
	"strings"
	"sync"
	"sync/atomic"
	"testing"
	"time"

	"github.com/anishathalye/porcupine"
	"verif.local/vlib/ora"
	"verif.local/vlib/rep"
)

func TestVerifC07(t *testing.T) {
	r := rep.New("C07")
	r.FlushEach = true
	r.Rule("purity: case = (request of the corpus, phase {concurrent-on-same-instance, hot-set, reversed-order, fresh-scan, write-mode, cache-loaded}); class = (request kind, phase, asset root); counted when (status, content-type, body hash) " +
		"was compared with the sequential reference answer; ingest API: class = (history shape of concurrent create/info/step/delete); races: every report of the Go race detector with a repository frame is a violation")
	r.Assume("only requests whose answer is defined by (URL, time) are in the corpus (no wall-clock pages); chunked requests are made after the segment end so no pacing is involved")
	defer func() { r.Done(); t.Log(r.Summary()) }()
	vfInitLog()
	groot := t.TempDir()
	if err := ora.WriteStandardGenAssets(groot, vfBundledVod()); err != nil {
		t.Fatal(err)
	}
	caseNo := 0
	for _, root := range []struct {
		name string
		dir  string
		refs []vfAssetRef
		gen  bool
	}{{"bundled", vfBundledVod(), vfBundledAssets, false}, {"generated", groot, vfGenAssets, true}} {
		s1 := vfNewServer(t, ServerConfig{VodRoot: root.dir})
		var worlds []vfWorld
		for _, ar := range root.refs {
			a, err := ora.LoadAsset(root.dir, ar.Path, ar.MPD, false)
			if err != nil {
				t.Fatal(err)
			}
			worlds = append(worlds, vfWorld{s1, root.dir, ar, a})
		}
		corpus := vfCorpus(worlds, r.Rand(7), r.Pick(10, 90), root.gen)
		for _, u := range []string{"/assets", "/urlgen/", "/urlgen/mpds?asset=" + root.refs[0].Path, "/livesim2/no/such/asset.mpd?nowMS=5000", "/healthz"} {
			corpus = append(corpus, vfReq{"GET", u, "", "page"})
		}
		r.Add("corpus_"+root.name, int64(len(corpus)))
		// Phase A: sequential reference
		caseNo++
		if !r.Begin(caseNo, root.name+" phase A") {
			continue
		}
		ref := make([]vfAns, len(corpus))
		for i, q := range corpus {
			ref[i] = vfAnswer(s1, q)
		}
		check := func(phase string, s *Server, i int) {
			got := vfAnswer(s, corpus[i])
			r.Eval(1)
			if got != ref[i] {
				sig := "answer-differs"
				if got.code == 500 && got.n == 0 {
					sig = "crash"
				} else if got.code != ref[i].code {
					sig = "status-differs"
				} else if got.ct != ref[i].ct {
					sig = "content-type-differs"
				}
				r.Violation(phase+":"+sig+":"+corpus[i].Kind, map[string]any{"url": corpus[i].URL, "reference": fmt.Sprintf("%+v", ref[i]), "got": fmt.Sprintf("%+v", got), "root": root.name})
				return
			}
			r.Class(fmt.Sprintf("%s|%s|%s", corpus[i].Kind, phase, root.name))
		}
		r.Sample(map[string]any{"root": root.name, "url": corpus[1].URL, "reference_answer": fmt.Sprintf("%+v", ref[1])})
		// Phase B: concurrent on the same instance (+ a hot set hammered by extra goroutines)
		caseNo++
		if r.Begin(caseNo, root.name+" phase B concurrent") {
			G := 32
			reps := r.Pick(2, 6)
			var wg sync.WaitGroup
			var next int64
			order := r.Rand(77).Perm(len(corpus) * reps)
			for g := 0; g < G; g++ {
				wg.Add(1)
				go func() {
					defer wg.Done()
					for {
						k := int(atomic.AddInt64(&next, 1)) - 1
						if k >= len(order) {
							return
						}
						check("concurrent", s1, order[k]%len(corpus))
					}
				}()
			}
			// hot set: the first asset's requests
			var hot []int
			for i, q := range corpus {
				if strings.Contains(q.URL, "/"+root.refs[0].Path+"/") {
					hot = append(hot, i)
				}
			}
			for g := 0; g < 8; g++ {
				wg.Add(1)
				go func(g int) {
					defer wg.Done()
					for k := 0; k < r.Pick(60, 400); k++ {
						check("hot-set", s1, hot[(k*7+g)%len(hot)])
					}
				}(g)
			}
			wg.Wait()
		}
		// Phase C: reversed order (history dependence)
		caseNo++
		if r.Begin(caseNo, root.name+" phase C reversed") {
			for i := len(corpus) - 1; i >= 0; i-- {
				check("reversed", s1, i)
			}
		}
		// Phase D: other instances
		caseNo++
		if r.Begin(caseNo, root.name+" phase D instances") {
			meta := t.TempDir()
			s2 := vfNewServer(t, ServerConfig{VodRoot: root.dir})
			s3 := vfNewServer(t, ServerConfig{VodRoot: root.dir, RepDataRoot: meta, WriteRepData: true})
			s4 := vfNewServer(t, ServerConfig{VodRoot: root.dir, RepDataRoot: meta})
			var wg sync.WaitGroup
			for name, s := range map[string]*Server{"fresh-scan": s2, "write-mode": s3, "cache-loaded": s4} {
				wg.Add(1)
				go func(name string, s *Server) {
					defer wg.Done()
					for _, i := range r.Rand(int64(len(name))).Perm(len(corpus)) {
						check(name, s, i)
					}
				}(name, s)
			}
			wg.Wait()
		}
	}
	caseNo++
	if r.Begin(caseNo, "ingest API") {
		vfC07IngestAPI(t, r)
	}
	if r.NViolations() > 0 {
		t.Fail()
	}
}

type vfAPIIn struct {
	op string // create info delete
	id int
}
type vfAPIOut struct {
	id   int
	code int
}

func vfC07IngestAPI(t *testing.T, r *rep.R) {
	var puts int64
	recv := httptest.NewServer(http.HandlerFunc(func(w http.ResponseWriter, req *http.Request) {
		atomic.AddInt64(&puts, 1)
		w.WriteHeader(200)
	}))
	defer recv.Close()
	rounds := r.Pick(6, 60)
	for round := 0; round < rounds; round++ {
		s := vfBundledServer(t)
		var mu sync.Mutex
		var ops []porcupine.Operation
		t0 := time.Now()
		record := func(g int, in vfAPIIn, f func() vfAPIOut) vfAPIOut {
			call := time.Since(t0).Nanoseconds()
			out := f()
			ret := time.Since(t0).Nanoseconds()
			mu.Lock()
			ops = append(ops, porcupine.Operation{ClientId: g, Input: in, Call: call, Output: out, Return: ret})
			mu.Unlock()
			return out
		}
		create := func(g int) int {
			body := fmt.Sprintf(`{"destRoot":"%s","destName":"d%d","livesimURL":"/livesim2/testpic_2s/Manifest.mpd","testNowMS":100500}`, recv.URL, g)
			out := record(g, vfAPIIn{"create", 0}, func() vfAPIOut {
				resp := vfDo(s, "POST", "/api/cmaf-ingests", strings.NewReader(body), map[string]string{"Content-Type": "application/json"})
				var v struct {
					ID string `json:"id"`
				}
				_ = json.Unmarshal(resp.Body, &v)
				id := 0
				fmt.Sscanf(v.ID, "%d", &id)
				return vfAPIOut{id, resp.Code}
			})
			return out.id
		}
		simple := func(g int, op, method, url string, id int) vfAPIOut {
			return record(g, vfAPIIn{op, id}, func() vfAPIOut {
				resp := vfDo(s, method, url, nil, nil)
				return vfAPIOut{id, resp.Code}
			})
		}
		G := 3 + round%4
		var wg sync.WaitGroup
		gate := make(chan struct{})
		for g := 0; g < G; g++ {
			wg.Add(1)
			go func(g int) {
				defer wg.Done()
				rng := r.Rand(int64(round*100 + g))
				<-gate
				var mine []int
				for k := 0; k < 2+rng.Intn(2); k++ {
					id := create(g)
					if id > 0 {
						mine = append(mine, id)
					}
					probe := 1 + rng.Intn(2*G+2)
					simple(g, "info", "GET", fmt.Sprintf("/api/cmaf-ingests/%d", probe), probe)
				}
				for _, id := range mine {
					// steps only on own live sessions (a step on a finished session never returns – judged under C08/C16)
					if rng.Intn(2) == 0 {
						resp := vfDo(s, "GET", fmt.Sprintf("/api/cmaf-ingests/%d/step", id), nil, nil)
						if resp.Code != 200 {
							r.Violation("ingest-api:step-on-own-session-status", map[string]any{"id": id, "status": resp.Code})
						}
					}
					simple(g, "info", "GET", fmt.Sprintf("/api/cmaf-ingests/%d", id), id)
					simple(g, "delete", "DELETE", fmt.Sprintf("/api/cmaf-ingests/%d", id), id)
				}
			}(g)
		}
		close(gate)
		wg.Wait()
		// sequential model of the session table: create returns a fresh id; info/delete find an id iff it was created
		// (sessions never disappear from the table). State = sorted list of created ids as a string.
		has := func(st string, id int) bool { return strings.Contains(st, fmt.Sprintf(",%d,", id)) }
		model := porcupine.Model{
			Init: func() any { return "," },
			Step: func(state, in, out any) (bool, any) {
				st := state.(string)
				i := in.(vfAPIIn)
				o := out.(vfAPIOut)
				switch i.op {
				case "create":
					if o.code != 201 || o.id <= 0 || has(st, o.id) {
						return false, st
					}
					ids := strings.Split(strings.Trim(st, ","), ",")
					if st == "," {
						ids = nil
					}
					ids = append(ids, fmt.Sprint(o.id))
					sort.Strings(ids)
					return true, "," + strings.Join(ids, ",") + ","
				default:
					if has(st, i.id) {
						return o.code == 200, st
					}
					return o.code == 404, st
				}
			},
			DescribeOperation: func(in, out any) string {
				return fmt.Sprintf("%s(%d)->%d/%d", in.(vfAPIIn).op, in.(vfAPIIn).id, out.(vfAPIOut).code, out.(vfAPIOut).id)
			},
		}
		res := porcupine.CheckOperations(model, ops)
		r.Eval(len(ops))
		sort.Slice(ops, func(i, j int) bool { return ops[i].Return < ops[j].Return })
		var sh strings.Builder
		for _, o := range ops {
			sh.WriteString(fmt.Sprintf("%d%c", o.ClientId, o.Input.(vfAPIIn).op[0]))
		}
		r.Class("ingest-api|G=" + fmt.Sprint(G) + "|" + sh.String())
		if !res {
			var d []string
			for _, o := range ops {
				d = append(d, fmt.Sprintf("c%d [%d,%d] %s", o.ClientId, o.Call, o.Return, model.DescribeOperation(o.Input, o.Output)))
			}
			r.Violation("ingest-api:session-table-history-not-linearizable", map[string]any{"history": d})
		}
		if round == 0 {
			r.Sample(map[string]any{"kind": "ingest-api history", "operations": len(ops), "order": sh.String()})
		}
	}
	r.Add("receiver_puts", atomic.LoadInt64(&puts))
}
