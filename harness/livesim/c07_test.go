package app

// C07 – livesim2 responses are a pure function of (URL, time) and race-free.
// Differential replay of a request corpus: sequential reference vs concurrent / reordered / repeated runs on the same instance and
// fresh, metadata-writing and cache-loaded instances; built with -race (reports are collected by run.py);
// the ingest-session table is exercised concurrently and its recorded history is checked with porcupine.

import (
	"encoding/json"
	"fmt"
	"io"
	"net/http"
	"net/http/httptest"
	"os"
	"path/filepath"
	"sort"
	"strings"
	"sync"
	"sync/atomic"
	"testing"
	"time"

	"github.com/anishathalye/porcupine"
	"verif.local/vlib/ora"
	"verif.local/vlib/rep"
)

func TestVerifC07(t *testing.T) {
	r := rep.New("C07")
	r.FlushEach = true
	r.Rule("purity: case = (request of the corpus, phase {concurrent-on-same-instance, hot-set, reversed-order, fresh-scan, write-mode, cache-loaded}); class = (request kind, phase, asset root); counted when (status, content-type, body hash) " +
		"was compared with the sequential reference answer; ingest API: class = (history shape of concurrent create/info/step/delete); races: every report of the Go race detector with a repository frame is a violation")
	r.Assume("only requests whose answer is defined by (URL, time) are in the corpus (no wall-clock pages); chunked requests are made after the segment end so no pacing is involved")
	defer func() { r.Done(); t.Log(r.Summary()) }()
	vfInitLog()
	groot := t.TempDir()
	if err := ora.WriteStandardGenAssets(groot, vfBundledVod()); err != nil {
		t.Fatal(err)
	}
	caseNo := 0
	for _, root := range []struct {
		name string
		dir  string
		refs []vfAssetRef
		gen  bool
	}{{"bundled", vfBundledVod(), vfBundledAssets, false}, {"generated", groot, vfGenAssets, true}} {
		s1 := vfNewServer(t, ServerConfig{VodRoot: root.dir})
		var worlds []vfWorld
		for _, ar := range root.refs {
			a, err := ora.LoadAsset(root.dir, ar.Path, ar.MPD, false)
			if err != nil {
				t.Fatal(err)
			}
			worlds = append(worlds, vfWorld{s1, root.dir, ar, a})
		}
		corpus := vfCorpus(worlds, r.Rand(7), r.Pick(10, 90), root.gen)
		for _, u := range []string{"/assets", "/urlgen/", "/urlgen/mpds?asset=" + root.refs[0].Path, "/livesim2/no/such/asset.mpd?nowMS=5000", "/healthz"} {
			corpus = append(corpus, vfReq{"GET", u, "", "page"})
		}
		r.Add("corpus_"+root.name, int64(len(corpus)))
		// Phase A: sequential reference
		caseNo++
		if !r.Begin(caseNo, root.name+" phase A") {
			continue
		}
		ref := make([]vfAns, len(corpus))
		for i, q := range corpus {
			ref[i] = vfAnswer(s1, q)
		}
		check := func(phase string, s *Server, i int) {
			got := vfAnswer(s, corpus[i])
			r.Eval(1)
			if got != ref[i] {
				sig := "answer-differs"
				if got.code == 500 && got.n == 0 {
					sig = "crash"
				} else if got.code != ref[i].code {
					sig = "status-differs"
				} else if got.ct != ref[i].ct {
					sig = "content-type-differs"
				}
				r.Violation(phase+":"+sig+":"+corpus[i].Kind, map[string]any{"url": corpus[i].URL, "reference": fmt.Sprintf("%+v", ref[i]), "got": fmt.Sprintf("%+v", got), "root": root.name})
				return
			}
			r.Class(fmt.Sprintf("%s|%s|%s", corpus[i].Kind, phase, root.name))
		}
		r.Sample(map[string]any{"root": root.name, "url": corpus[1].URL, "reference_answer": fmt.Sprintf("%+v", ref[1])})
		// Phase B: concurrent on the same instance (+ a hot set hammered by extra goroutines)
		caseNo++
		if r.Begin(caseNo, root.name+" phase B concurrent") {
			G := 32
			reps := r.Pick(2, 6)
			var wg sync.WaitGroup
			var next int64
			order := r.Rand(77).Perm(len(corpus) * reps)
			for g := 0; g < G; g++ {
				wg.Add(1)
				go func() {
					defer wg.Done()
					for {
						k := int(atomic.AddInt64(&next, 1)) - 1
						if k >= len(order) {
							return
						}
						check("concurrent", s1, order[k]%len(corpus))
					}
				}()
			}
			// hot set: the first asset's requests
			var hot []int
			for i, q := range corpus {
				if strings.Contains(q.URL, "/"+root.refs[0].Path+"/") {
					hot = append(hot, i)
				}
			}
			for g := 0; g < 8; g++ {
				wg.Add(1)
				go func(g int) {
					defer wg.Done()
					for k := 0; k < r.Pick(60, 400); k++ {
						check("hot-set", s1, hot[(k*7+g)%len(hot)])
					}
				}(g)
			}
			wg.Wait()
		}
		// Phase C: reversed order (history dependence)
		caseNo++
		if r.Begin(caseNo, root.name+" phase C reversed") {
			for i := len(corpus) - 1; i >= 0; i-- {
				check("reversed", s1, i)
			}
		}
		// Phase D: other instances
		caseNo++
		if r.Begin(caseNo, root.name+" phase D instances") {
			meta := t.TempDir()
			s2 := vfNewServer(t, ServerConfig{VodRoot: root.dir})
			s3 := vfNewServer(t, ServerConfig{VodRoot: root.dir, RepDataRoot: meta, WriteRepData: true})
			s4 := vfNewServer(t, ServerConfig{VodRoot: root.dir, RepDataRoot: meta})
			var wg sync.WaitGroup
			for name, s := range map[string]*Server{"fresh-scan": s2, "write-mode": s3, "cache-loaded": s4} {
				wg.Add(1)
				go func(name string, s *Server) {
					defer wg.Done()
					for _, i := range r.Rand(int64(len(name))).Perm(len(corpus)) {
						check(name, s, i)
					}
				}(name, s)
			}
			wg.Wait()
		}
	}
	caseNo++
	if r.Begin(caseNo, "relative start") {
		vfC07RelativeStart(t, r)
	}
	caseNo++
	if r.Begin(caseNo, "first-touch order") {
		vfC07FirstTouch(t, r)
	}
	caseNo++
	if r.Begin(caseNo, "drm packages") {
		vfC07DrmPackages(t, r)
	}
	caseNo++
	if r.Begin(caseNo, "ingest API") {
		vfC07IngestAPI(t, r)
	}
	if r.NViolations() > 0 {
		t.Fail()
	}
}

// vfC07RelativeStart: startrel_/stoprel_ are relative to the request instant, so the same path must give the answer that belongs to
// the instant of each request, whatever was asked before (instants deliberately not monotone).
func vfC07RelativeStart(t *testing.T, r *rep.R) {
	s := vfBundledServer(t)
	for _, mode := range []string{"", "segtimeline_1/"} {
		for _, rel := range []int64{-20, -45} {
			for _, tm := range []int64{100_500, 163_000, 120_250, 1_700_000_200_999, 163_000, 90_001} {
				u := fmt.Sprintf("/livesim2/%sstartrel_%d/testpic_2s/Manifest.mpd?nowMS=%d", mode, rel, tm)
				resp := vfGet(s, u)
				r.Eval(1)
				if resp.Code != 200 {
					r.Violation("relative-start:mpd-status", map[string]any{"url": u, "status": resp.Code})
					continue
				}
				m, err := ora.ParseMPD(resp.Body)
				if err != nil {
					r.Violation("relative-start:mpd-unparseable", map[string]any{"url": u})
					continue
				}
				ast, ok := ora.TimeMS(m.AST)
				want := tm + rel*1000 // the server rounds the instant to a whole second: anything within one second is accepted
				if !ok || ast-want >= 1000 || want-ast >= 1000 {
					r.Violation("relative-start:availabilityStartTime-does-not-follow-the-request-instant", map[string]any{"url": u, "availabilityStartTime": m.AST, "expected_ms_within_one_second_of": want})
					continue
				}
				r.Class(fmt.Sprintf("relative-start|%s|rel=%d", mode, rel))
			}
			// stoprel: the presentation is dynamic before now+rel ... and static at or after; probed with rel < 0 (already stopped) and > 0
			for _, tm := range []int64{200_000, 100_000, 300_500} {
				for _, sr := range []int64{-10, 30} {
					u := fmt.Sprintf("/livesim2/%sstart_50/stoprel_%d/testpic_2s/Manifest.mpd?nowMS=%d", mode, sr, tm)
					resp := vfGet(s, u)
					r.Eval(1)
					if resp.Code != 200 {
						continue // refusals are judged under C08
					}
					static := strings.Contains(string(resp.Body), `type="static"`)
					if static != (sr <= 0) {
						r.Violation("relative-stop:type-does-not-follow-the-request-instant", map[string]any{"url": u, "static": static})
						continue
					}
					if static {
						if m, err := ora.ParseMPD(resp.Body); err == nil {
							if d, ok := ora.DurMS(m.MPDur); ok && (d-(tm+sr*1000-50_000) >= 1000 || (tm+sr*1000-50_000)-d >= 1000) {
								r.Violation("relative-stop:duration-does-not-follow-the-request-instant", map[string]any{"url": u, "mediaPresentationDuration": m.MPDur, "expected_ms_within_one_second_of": tm + sr*1000 - 50_000})
								continue
							}
						}
					}
					r.Class(fmt.Sprintf("relative-stop|%s|rel=%d", mode, sr))
				}
			}
		}
	}
}

// vfC07FirstTouch: process-wide state (memo tables, caches) keyed too coarsely makes an answer depend on which asset or start time
// touched the key first; a replay inside the same process cannot see that once the table is filled. The status-code schedule is
// periodic in its cycle, so the same requests are made in two passes at instants one cycle-multiple apart with the order of the
// assets (and start times) swapped: the status sequences of each asset must be the same in both passes.
func vfC07FirstTouch(t *testing.T, r *rep.R) {
	s := vfBundledServer(t)
	type tgt struct{ cfg, asset string }
	tgts := []tgt{{"", "testpic_2s"}, {"", "testpic_6s"}, {"start_30/", "testpic_2s"}, {"start_60/", "testpic_6s"}}
	pat := "statuscode_[{cycle:30,rsq:0,code:404},{cycle:30,rsq:2,code:503,rep:V300}]/"
	const T1, T2 = 3_600_000, 3_600_000 + 7*30_000*12 // both multiples of 30 s and of every loop duration used (8 s, 6*? s): 2520 s apart
	statuses := func(base int64, order []int) map[int][]int {
		out := map[int][]int{}
		for j := int64(1); j <= 10; j++ {
			nowMS := base + j*6000 + 50
			for _, ti := range order {
				tg := tgts[ti]
				d := int64(2)
				if tg.asset == "testpic_6s" {
					d = 6
				}
				st := int64(0)
				fmt.Sscanf(tg.cfg, "start_%d/", &st)
				nr := (nowMS/1000-st)/d - 1 // the newest complete segment (start number 0)
				u := fmt.Sprintf("/livesim2/%s%s%s/V300/%d.m4s?nowMS=%d", tg.cfg, pat, tg.asset, nr, nowMS)
				resp := vfGet(s, u)
				r.Eval(1)
				if resp.Code == 500 && len(resp.Body) == 0 {
					r.Violation("first-touch:crash", map[string]any{"url": u})
				}
				out[ti] = append(out[ti], resp.Code)
			}
		}
		return out
	}
	p1 := statuses(T1, []int{0, 1, 2, 3})
	p2 := statuses(T2, []int{3, 2, 1, 0})
	for ti := range tgts {
		if fmt.Sprint(p1[ti]) != fmt.Sprint(p2[ti]) {
			r.Violation("first-touch:status-sequence-depends-on-request-order", map[string]any{"target": tgts[ti].cfg + tgts[ti].asset, "pattern": pat,
				"pass1_order_0123_base_ms": T1, "pass1": p1[ti], "pass2_order_3210_base_ms": T2, "pass2": p2[ti]})
			continue
		}
		hits := 0
		for _, c := range p1[ti] {
			if c != 200 {
				hits++
			}
		}
		r.Class(fmt.Sprintf("first-touch|%s%s|non-200=%d", tgts[ti].cfg, tgts[ti].asset, hits))
	}
}

// vfC07DrmPackages: init segments, media and MPDs of one representation under several DRM packages of the same scheme, first one
// at a time (reference), then hammered concurrently: per-package state must not leak between requests.
func vfC07DrmPackages(t *testing.T, r *rep.R) {
	s := vfNewServer(t, ServerConfig{VodRoot: vfBundledVod(), DrmCfgFile: vfRepoRoot() + "/pkg/drm/testdata/drm_config_test.json"})
	var reqs []vfReq
	for _, drm := range []string{"drm_EZDRM-1-key-cbcs-test", "drm_EZDRM-2-keys-cbcs-test", "eccp_cbcs", "eccp_cenc"} {
		for _, rp := range []string{"V300", "A48"} {
			reqs = append(reqs, vfReq{"GET", fmt.Sprintf("/livesim2/%s/testpic_2s/%s/init.mp4?nowMS=100500", drm, rp), "", "drm-init"},
				vfReq{"GET", fmt.Sprintf("/livesim2/%s/testpic_2s/%s/40.m4s?nowMS=100500", drm, rp), "", "drm-media"})
		}
		reqs = append(reqs, vfReq{"GET", fmt.Sprintf("/livesim2/%s/testpic_2s/Manifest.mpd?nowMS=100500", drm), "", "drm-mpd"})
	}
	ref := make([]vfAns, len(reqs))
	for i, q := range reqs {
		ref[i] = vfAnswer(s, q)
		if ref[i].code != 200 {
			r.Violation("drm-packages:status", map[string]any{"url": q.URL, "status": ref[i].code})
			return
		}
	}
	var wg sync.WaitGroup
	reps := r.Pick(150, 1500)
	for g := 0; g < 16; g++ {
		wg.Add(1)
		go func(g int) {
			defer wg.Done()
			for k := 0; k < reps; k++ {
				i := (k*5 + g*3) % len(reqs)
				got := vfAnswer(s, reqs[i])
				r.Eval(1)
				if got != ref[i] {
					r.Violation("drm-packages:concurrent:answer-differs:"+reqs[i].Kind, map[string]any{"url": reqs[i].URL, "reference": fmt.Sprintf("%+v", ref[i]), "got": fmt.Sprintf("%+v", got)})
					return
				}
				r.Class("drm-packages|concurrent|" + reqs[i].Kind)
			}
		}(g)
	}
	wg.Wait()
}

// TestVerifC07X – history independence across processes. The same table of requests is answered by two separate processes, once in
// table order and once in reverse. The table is made collision-prone on purpose: a handful of instants shared by all assets, many of
// which share representation ids, under many configurations - so that process-wide state keyed too coarsely (by representation id,
// by instant, by URL path without its configuration ...) is filled by a different request in each process. The second process compares
// its answers with the table the first one wrote.
func TestVerifC07X(t *testing.T) {
	r := rep.New("C07")
	r.Rule("cross-process order independence: case = (request of a collision-prone table: shared instants x assets x configurations x {MPD, init, newest video/audio segment, generated subtitle segment}); class = (asset, configuration kind, request kind); counted when the answer of the process that went through the table in reverse was compared with the answer of the process that went through it forwards")
	defer func() { r.Done(); t.Log(r.Summary()) }()
	vfInitLog()
	order := os.Getenv("VERIF_C07X_ORDER")
	scratch := os.Getenv("VERIF_SCRATCH")
	if order == "" || scratch == "" {
		r.Inconclusive("c07x-not-configured")
		return
	}
	s := vfNewServer(t, ServerConfig{VodRoot: vfBundledVod(), DrmCfgFile: vfRepoRoot() + "/pkg/drm/testdata/drm_config_test.json"})
	type q struct{ Asset, Cfg, Kind, URL string }
	var tab []q
	instants := []int64{120_000, 120_500, 3_600_000, 1_700_000_040_000}
	if r.Thorough() {
		instants = append(instants, 90_000, 600_250, 86_400_000, 1_700_000_070_500)
	}
	cfgs := []string{"", "start_30", "snr_3", "tsbd_20", "segtimeline_1", "segtimelinenr_1/tsbd_20", "ato_1.000", "periods_60", "scte35_1",
		"statuscode_[{cycle:30,rsq:0,code:404}]", "timesubswvtt_en", "timesubsstpp_en,sv", "eccp_cbcs", "drm_EZDRM-1-key-cbcs-test", "drm_EZDRM-2-keys-cbcs-test", "patch_60/segtimeline_1", "startrel_-20"}
	for _, ar := range vfBundledAssets {
		a, err := ora.LoadAsset(vfBundledVod(), ar.Path, ar.MPD, false)
		if err != nil || a.Ref.ContentType != "video" {
			continue
		}
		segMS := a.LoopMS / int64(a.Ref.N())
		for _, tm := range instants {
			for _, cfg := range cfgs {
				if cfg == "periods_60" && 60000%segMS != 0 {
					continue
				}
				st := int64(0)
				if cfg == "start_30" {
					st = 30
				}
				if tm/1000 < st+3*segMS/1000+20 {
					continue
				}
				tab = append(tab, q{ar.Path, cfg, "mpd", vfURL(cfg, ar.Path, ar.MPD, tm)})
				if strings.HasPrefix(cfg, "startrel") || strings.HasPrefix(cfg, "patch") {
					continue
				}
				n := a.NewestAvail(a.Ref, tm, st, 0)
				if n < 1 {
					continue
				}
				snr := int64(0)
				if cfg == "snr_3" {
					snr = 3
				}
				for _, id := range a.RepIDs {
					rp := a.Reps[id]
					if rp.ContentType == "image" || (rp.ContentType == "audio" && rp.SampleDur == 0) {
						continue
					}
					tab = append(tab, q{ar.Path, cfg, "init", vfURL(cfg, ar.Path, rp.InitPath, tm)})
					if !strings.HasPrefix(cfg, "segtimeline_1") {
						tab = append(tab, q{ar.Path, cfg, "media-" + rp.ContentType, vfURL(cfg, ar.Path, vfMediaURL(rp, uint64(snr+n)), tm)})
					}
				}
				if cfg == "timesubswvtt_en" {
					tab = append(tab, q{ar.Path, cfg, "timesubs", vfURL(cfg, ar.Path, fmt.Sprintf("timewvtt-en/%d.m4s", n), tm)},
						q{ar.Path, cfg, "timesubs-init", vfURL(cfg, ar.Path, "timewvtt-en/init.mp4", tm)})
				}
				if cfg == "timesubsstpp_en,sv" {
					tab = append(tab, q{ar.Path, cfg, "timesubs", vfURL(cfg, ar.Path, fmt.Sprintf("timestpp-sv/%d.m4s", n), tm)},
						q{ar.Path, cfg, "timesubs-init", vfURL(cfg, ar.Path, "timestpp-en/init.mp4", tm)},
						q{ar.Path, cfg, "timesubs-init", vfURL(cfg, ar.Path, "timestpp-sv/init.mp4", tm)})
				}
			}
		}
	}
	idx := make([]int, len(tab))
	for i := range idx {
		idx[i] = i
		if order == "rev" {
			idx[i] = len(tab) - 1 - i
		}
	}
	ans := make([]string, len(tab))
	for _, i := range idx {
		a := vfAnswer(s, vfReq{"GET", tab[i].URL, "", tab[i].Kind})
		ans[i] = fmt.Sprintf("%+v", a)
		r.Eval(1)
	}
	fwdFile := filepath.Join(scratch, "c07x_fwd.json")
	if order == "fwd" {
		b, _ := json.Marshal(ans)
		if err := os.WriteFile(fwdFile, b, 0644); err != nil {
			t.Fatal(err)
		}
		for _, x := range tab {
			r.Class(fmt.Sprintf("x-process|answered-forwards|%s", x.Kind))
		}
		r.Sample(map[string]any{"kind": "cross-process table", "requests": len(tab), "first": tab[0].URL, "answer": ans[0]})
		return
	}
	b, err := os.ReadFile(fwdFile)
	var fwd []string
	if err != nil || json.Unmarshal(b, &fwd) != nil || len(fwd) != len(tab) {
		r.Inconclusive("c07x-forward-table-missing")
		return
	}
	for i, x := range tab {
		if fwd[i] != ans[i] {
			kind := strings.SplitN(x.Cfg, "_", 2)[0]
			r.Violation("x-process:answer-depends-on-the-order-of-earlier-requests:"+x.Kind+":"+kind, map[string]any{"url": x.URL, "answer_in_table_order": fwd[i], "answer_in_reverse_order": ans[i]})
			continue
		}
		r.Class(fmt.Sprintf("x-process|%s|%s|%s", x.Asset, strings.SplitN(x.Cfg, "_", 2)[0], x.Kind))
	}
	r.Sample(map[string]any{"kind": "cross-process comparison", "requests": len(tab), "last": tab[len(tab)-1].URL, "answer": ans[len(tab)-1]})
	if r.NViolations() > 0 {
		t.Fail()
	}
}

type vfAPIIn struct {
	op string // create info delete
	id int
}
type vfAPIOut struct {
	id   int
	code int
}

func vfC07IngestAPI(t *testing.T, r *rep.R) {
	var puts int64
	recv := httptest.NewServer(http.HandlerFunc(func(w http.ResponseWriter, req *http.Request) {
		_, _ = io.Copy(io.Discard, req.Body)
		if atomic.AddInt64(&puts, 1)%3 == 0 {
			time.Sleep(400 * time.Microsecond) // some requests stay in flight for a while
		}
		w.WriteHeader(200)
	}))
	defer recv.Close()
	rounds := r.Pick(6, 240)
	for round := 0; round < rounds; round++ {
		s := vfBundledServer(t)
		var mu sync.Mutex
		var ops []porcupine.Operation
		t0 := time.Now()
		record := func(g int, in vfAPIIn, f func() vfAPIOut) vfAPIOut {
			call := time.Since(t0).Nanoseconds()
			out := f()
			ret := time.Since(t0).Nanoseconds()
			mu.Lock()
			ops = append(ops, porcupine.Operation{ClientId: g, Input: in, Call: call, Output: out, Return: ret})
			mu.Unlock()
			return out
		}
		create := func(g int) int {
			body := fmt.Sprintf(`{"destRoot":"%s","destName":"d%d","livesimURL":"/livesim2/testpic_2s/Manifest.mpd","testNowMS":100500}`, recv.URL, g)
			out := record(g, vfAPIIn{"create", 0}, func() vfAPIOut {
				resp := vfDo(s, "POST", "/api/cmaf-ingests", strings.NewReader(body), map[string]string{"Content-Type": "application/json"})
				var v struct {
					ID string `json:"id"`
				}
				_ = json.Unmarshal(resp.Body, &v)
				id := 0
				fmt.Sscanf(v.ID, "%d", &id)
				return vfAPIOut{id, resp.Code}
			})
			return out.id
		}
		simple := func(g int, op, method, url string, id int) vfAPIOut {
			return record(g, vfAPIIn{op, id}, func() vfAPIOut {
				resp := vfDo(s, method, url, nil, nil)
				return vfAPIOut{id, resp.Code}
			})
		}
		G := 3 + round%6
		var wg sync.WaitGroup
		gate := make(chan struct{})
		for g := 0; g < G; g++ {
			wg.Add(1)
			go func(g int) {
				defer wg.Done()
				rng := r.Rand(int64(round*100 + g))
				<-gate
				var mine []int
				for k := 0; k < 2+rng.Intn(2); k++ {
					id := create(g)
					if id > 0 {
						mine = append(mine, id)
					}
					probe := 1 + rng.Intn(2*G+2)
					simple(g, "info", "GET", fmt.Sprintf("/api/cmaf-ingests/%d", probe), probe)
					if g%2 == 1 {
						// churn: a session deleted right after its creation, i.e. cancelled while it uploads its init segments
						// to the receiver the other sessions use as well
						if id2 := create(g); id2 > 0 {
							simple(g, "delete", "DELETE", fmt.Sprintf("/api/cmaf-ingests/%d", id2), id2)
						}
					}
				}
				for _, id := range mine {
					// steps only on own live sessions (a step on a finished session never returns – judged under C08/C16)
					if rng.Intn(2) == 0 {
						resp := vfDo(s, "GET", fmt.Sprintf("/api/cmaf-ingests/%d/step", id), nil, nil)
						if resp.Code != 200 {
							// why is the session not live? its report tells: a request of this session was cancelled although nobody has deleted
							// the session (a violation: another session's cancellation leaked into it), or the transport to the receiver failed
							// (inconclusive: a problem of the test machine, not of the sender)
							info := vfDo(s, "GET", fmt.Sprintf("/api/cmaf-ingests/%d", id), nil, nil)
							var hist []string
							deleted := false
							mu.Lock()
							for _, o := range ops {
								if o.Input.(vfAPIIn).id == id || o.Output.(vfAPIOut).id == id {
									hist = append(hist, fmt.Sprintf("c%d [%d,%d] %s(%d)->%d/%d", o.ClientId, o.Call, o.Return, o.Input.(vfAPIIn).op, o.Input.(vfAPIIn).id, o.Output.(vfAPIOut).code, o.Output.(vfAPIOut).id))
									deleted = deleted || o.Input.(vfAPIIn).op == "delete"
								}
							}
							mu.Unlock()
							switch {
							case resp.Code == 410 && !deleted && strings.Contains(string(info.Body), "context canceled"):
								r.Violation("ingest-api:session-cancelled-although-never-deleted", map[string]any{"id": id, "client": g, "operations_on_this_id": hist, "session_info": vfTrunc(info.Body, 600)})
							case resp.Code == 410 && (strings.Contains(string(info.Body), "rror") || strings.Contains(string(info.Body), "ailed")):
								r.Inconclusive("ingest-api:session-ended-by-upload-error")
								r.Sample(map[string]any{"kind": "ingest session that ended by an upload error", "session_info": vfTrunc(info.Body, 600)})
							default:
								r.Violation("ingest-api:step-on-own-session-status", map[string]any{"id": id, "status": resp.Code, "session_info": vfTrunc(info.Body, 600)})
							}
						}
					}
					simple(g, "info", "GET", fmt.Sprintf("/api/cmaf-ingests/%d", id), id)
					simple(g, "delete", "DELETE", fmt.Sprintf("/api/cmaf-ingests/%d", id), id)
				}
			}(g)
		}
		close(gate)
		wg.Wait()
		// sequential model of the session table: create returns a fresh id; info/delete find an id iff it was created
		// (sessions never disappear from the table). State = sorted list of created ids as a string.
		has := func(st string, id int) bool { return strings.Contains(st, fmt.Sprintf(",%d,", id)) }
		model := porcupine.Model{
			Init: func() any { return "," },
			Step: func(state, in, out any) (bool, any) {
				st := state.(string)
				i := in.(vfAPIIn)
				o := out.(vfAPIOut)
				switch i.op {
				case "create":
					if o.code != 201 || o.id <= 0 || has(st, o.id) {
						return false, st
					}
					ids := strings.Split(strings.Trim(st, ","), ",")
					if st == "," {
						ids = nil
					}
					ids = append(ids, fmt.Sprint(o.id))
					sort.Strings(ids)
					return true, "," + strings.Join(ids, ",") + ","
				default:
					if has(st, i.id) {
						return o.code == 200, st
					}
					return o.code == 404, st
				}
			},
			DescribeOperation: func(in, out any) string {
				return fmt.Sprintf("%s(%d)->%d/%d", in.(vfAPIIn).op, in.(vfAPIIn).id, out.(vfAPIOut).code, out.(vfAPIOut).id)
			},
		}
		res := porcupine.CheckOperations(model, ops)
		r.Eval(len(ops))
		sort.Slice(ops, func(i, j int) bool { return ops[i].Return < ops[j].Return })
		var sh strings.Builder
		for _, o := range ops {
			sh.WriteString(fmt.Sprintf("%d%c", o.ClientId, o.Input.(vfAPIIn).op[0]))
		}
		r.Class("ingest-api|G=" + fmt.Sprint(G) + "|" + sh.String())
		if !res {
			var d []string
			for _, o := range ops {
				d = append(d, fmt.Sprintf("c%d [%d,%d] %s", o.ClientId, o.Call, o.Return, model.DescribeOperation(o.Input, o.Output)))
			}
			r.Violation("ingest-api:session-table-history-not-linearizable", map[string]any{"history": d})
		}
		if round == 0 {
			r.Sample(map[string]any{"kind": "ingest-api history", "operations": len(ops), "order": sh.String()})
		}
	}
	r.Add("receiver_puts", atomic.LoadInt64(&puts))
}
