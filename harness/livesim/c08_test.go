package app

// C08 – no request can crash a handler or make it spin (livesim2 server part).
// Grammar-generated hostile requests through the real router. Oracle: (a) crash = recovered panic (500 with empty body; the
// stack written by the Recoverer to stderr gives the call-site signature) or process death; (b) every request runs under a
// watchdog; (c) 4xx with a message for single-parameter parser-level errors, 404 for unknown asset / representation / segment.

import (
	"fmt"
	"net/http/httptest"
	"os"
	"regexp"
	"runtime"
	"strings"
	"testing"
	"time"

	"verif.local/vlib/rep"
)

type vfErrTail struct {
	f   *os.File
	off int64
}

func vfOpenErrTail() *vfErrTail {
	p := os.Getenv("VERIF_ERRFILE")
	if p == "" {
		return nil
	}
	f, err := os.Open(p)
	if err != nil {
		return nil
	}
	st, _ := f.Stat()
	return &vfErrTail{f, st.Size()}
}

func (e *vfErrTail) next() string {
	if e == nil {
		return ""
	}
	st, err := e.f.Stat()
	if err != nil || st.Size() <= e.off {
		return ""
	}
	b := make([]byte, st.Size()-e.off)
	n, _ := e.f.ReadAt(b, e.off)
	e.off += int64(n)
	return string(b[:n])
}

var vfPanicRe = regexp.MustCompile(`(?s)panic: ([^\n]*)\n.*?-> ([^\n]+)\n`)
var vfDigits = regexp.MustCompile(`\d+`)

func vfPanicSig(stderr string) string {
	m := vfPanicRe.FindStringSubmatch(stderr)
	if m == nil {
		return "crash:unknown-site"
	}
	msg := vfDigits.ReplaceAllString(m[1], "N")
	if len(msg) > 60 {
		msg = msg[:60]
	}
	fn := strings.TrimSpace(m[2])
	fn = strings.TrimPrefix(fn, "github.com/Dash-Industry-Forum/livesim2/")
	return "crash:" + msg + "@" + fn
}

type vfHostile struct {
	method, url, body, ctype string
	kind                     string
	want4xx                  bool // single-parameter parser-level error: must be 4xx with a message
	want404                  bool
}

func TestVerifC08(t *testing.T) {
	r := rep.New("C08")
	r.FlushEach = false
	r.Rule("case = one hostile request (URL key x value class singly and pairwise, segment-name shapes, endpoints /livesim2 /patch /urlgen /api, licence POST bodies, methods); class = (endpoint kind, key, value class, tail shape, outcome class {2xx,3xx,4xx,5xx-with-message}); " +
		"counted for every request that terminated with a deliberate response")
	r.Assume("deliberate response = any status with a non-empty body, or a status other than 500; a recovered panic is recognised by status 500 with an empty body (chi Recoverer) and its stack on stderr")
	r.Assume("4xx-with-message is demanded only for single-parameter parser-level errors (non-numeric value for a numeric key, tsbd outside [0,48h], mup<=0, scte35 not in {1,2,3}, timesubsreg not in {0,1}, malformed statuscode/traffic/annexI); other refusals may be 5xx with a message")
	r.Assume("termination watchdog 45 s per request (longest designed delay: 10 s hang state); two goroutine dumps classify a firing watchdog")
	defer func() { r.Done(); t.Log(r.Summary()) }()
	drmCfg := vfRepoRoot() + "/pkg/drm/testdata/drm_config_test.json"
	s := vfNewServer(t, ServerConfig{VodRoot: vfBundledVod(), DrmCfgFile: drmCfg})
	s2 := vfNewServer(t, ServerConfig{VodRoot: vfBundledVod()}) // no DRM configuration
	et := vfOpenErrTail()
	var reqs []vfHostile
	add := func(h vfHostile) { reqs = append(reqs, h) }
	assets := []string{"testpic_2s", "testpic_alt_seg_dur_stl", "bbb_hevc_ac3_8s", "WAVE/vectors/cfhd_sets/14.985_29.97_59.94/t1/2022-10-17"}
	mpdOf := map[string]string{"testpic_2s": "Manifest.mpd", "testpic_alt_seg_dur_stl": "Manifest.mpd", "bbb_hevc_ac3_8s": "manifest.mpd", "WAVE/vectors/cfhd_sets/14.985_29.97_59.94/t1/2022-10-17": "stream.mpd"}
	tails := func(asset string) map[string]string {
		m := map[string]string{"mpd": mpdOf[asset], "empty": "", "unknown-ext": "V300/5.xyz", "unknown-rep": "nosuch/5.m4s", "overflow-nr": "V300/9223372036854775808.m4s", "huge-nr": "V300/4294967296.m4s", "neg": "V300/-1.m4s"}
		switch asset {
		case "testpic_2s":
			m["init"], m["video"], m["audio"], m["video-time"], m["audio-time"] = "V300/init.mp4", "V300/49.m4s", "A48/49.m4s", "V300/8820000.m4s", "A48/4704256.m4s"
			m["below-snr"], m["bu9"], m["timesubs"], m["timesubs-lang"], m["timesubs-init"] = "V300/2.m4s", "bu9/V300/49.m4s", "timestpp-en/49.m4s", "timestpp-xx/49.m4s", "timewvtt-en/init.mp4"
			m["audio-below-snr"] = "A48/2.m4s"
		case "bbb_hevc_ac3_8s":
			m["init"], m["video"], m["audio"] = "video_init.mp4", "video_12.m4s", "audio_12.m4s"
		case "testpic_alt_seg_dur_stl":
			m["init"], m["video"], m["audio"], m["video-time"] = "V300/init.mp4", "V300/16.m4s", "A48/16.m4s", "V300/8640000.m4s"
		default:
			m["init"], m["video"], m["video-time"] = "1/init.mp4", "1/49.m4s", "1/2942940.m4s"
		}
		return m
	}
	values := map[string]string{"empty": "", "zero": "0", "minus1": "-1", "one": "1", "2^31": "2147483648", "maxint": "9223372036854775807", "2^63": "9223372036854775808",
		"1e309": "1e309", "nan": "nan", "inf": "inf", "-inf": "-inf", "tiny": "0.0000001", "alpha": "abc", "list": "1,2", "badpct": "%zz", "long": strings.Repeat("7", 4096), "float": "1.5", "big-neg": "-9223372036854775808"}
	numericInt := map[string]bool{"start": true, "ast": true, "stop": true, "startrel": true, "stoprel": true, "dur": true, "init": true, "tsbd": true, "mup": true, "periods": true, "xlink": true, "etp": true, "etpDuration": true,
		"peroff": true, "scte35": true, "snr": true, "ltgt": true, "spd": true, "timesubsdur": true, "timesubsreg": true, "patch": true}
	numericFloat := map[string]bool{"timeoffset": true, "ato": true, "chunkdur": true}
	keys := []string{"start", "ast", "stop", "startrel", "stoprel", "dur", "timeoffset", "init", "tsbd", "mup", "modulo", "tfdt", "cont", "periods", "xlink", "etp", "etpDuration", "insertad", "continuous", "segtimeline", "segtimelinenr",
		"peroff", "scte35", "utc", "snr", "ato", "ltgt", "spd", "sidx", "segtimelineloss", "chunkdur", "timesubsstpp", "timesubswvtt", "timesubsdur", "timesubsreg", "statuscode", "traffic", "drm", "eccp", "patch", "annexI"}
	special := map[string][]string{
		"statuscode":  {"[{cycle:30,rsq:0,code:404}]", "[{cycle:0,rsq:0,code:404}]", "[{rsq:0,code:404}]", "[{cycle:30,rsq:-1,code:404}]", "[{cycle:30,rsq:0,code:99}]", "[{cycle:30}]", "[]", "[{", "x", "[{cycle:1,rsq:99999,code:500}]", "[{cycle:30,rsq:0,code:404,rep:V300,A48}]", "[{cycle:2147483648,rsq:0,code:404}]"},
		"traffic":     {"u10", "10", "u", "u0", "d5", "h1", "x5", "u10d10,d10u10", "u10,", ",", "u99999999999999999999"},
		"annexI":      {"a=1", "a", "a=1,b", "=", "a=1=2", ","},
		"utc":         {"direct", "keep", "none", "keep-ntp", "bogus", "-", "head-direct-ntp-sntp-httpxsdate-httpiso"},
		"drm":         {"EZDRM-1-key-cbcs-test", "nosuch", ""},
		"eccp":        {"cenc", "cbcs", "xyz", ""},
		"periods":     {"0", "7200", "3600", "3601", "-60", "60"},
		"scte35":      {"1", "3", "4", "0"},
		"ato":         {"2", "1.999", "2.000001", "8", "-1", "inf"},
		"chunkdur":    {"0.5", "0", "-1", "1e-9"},
		"timesubsdur": {"0", "-5", "1", "999999999"},
		"tsbd":        {"172800", "172801", "0"},
		"patch":       {"60", "0", "-5"},
	}
	nowMS := int64(100000)
	mk := func(cfg, asset, tail string, kind string) vfHostile {
		u := "/livesim2/"
		if cfg != "" {
			u += cfg + "/"
		}
		u += asset
		if tail != "" || kind == "empty" {
			u += "/" + tail
		}
		return vfHostile{method: "GET", url: fmt.Sprintf("%s?nowMS=%d", u, nowMS), kind: kind}
	}
	// (1) every key x every value class singly, on several tails
	for _, k := range keys {
		vals := map[string]string{}
		for n, v := range values {
			vals[n] = v
		}
		for i, v := range special[k] {
			vals[fmt.Sprintf("special%d", i)] = v
		}
		for vn, v := range vals {
			for _, tn := range []string{"mpd", "video", "audio", "init"} {
				a := assets[0]
				tl := tails(a)
				h := mk(k+"_"+v, a, tl[tn], "key="+k+"|val="+vn+"|tail="+tn)
				// parser-level errors that must be a 4xx with a message
				_, isNumErr := map[string]bool{"alpha": true, "nan": numericInt[k], "1e309": numericInt[k], "list": true, "float": numericInt[k], "2^63": numericInt[k], "empty": true, "inf": numericInt[k], "-inf": numericInt[k], "tiny": numericInt[k]}[vn]
				if (numericInt[k] || numericFloat[k]) && isNumErr && map[string]bool{"alpha": true, "list": true}[vn] {
					h.want4xx = true
				}
				if numericInt[k] && (vn == "float" || vn == "nan" || vn == "1e309" || vn == "2^63" || vn == "tiny") {
					h.want4xx = true
				}
				if k == "tsbd" && (v == "-1" || v == "172801" || vn == "2^31" || vn == "maxint") {
					h.want4xx = true
				}
				if k == "mup" && (v == "0" || v == "-1") {
					h.want4xx = true
				}
				if k == "scte35" && (v == "0" || v == "4" || v == "-1" || vn == "2^31") {
					h.want4xx = true
				}
				if k == "timesubsreg" && (v == "-1" || vn == "2^31" || vn == "maxint") {
					h.want4xx = true
				}
				if k == "statuscode" && (v == "x" || v == "[{" || v == "[{cycle:0,rsq:0,code:404}]" || v == "[{cycle:30,rsq:-1,code:404}]" || v == "[{cycle:30,rsq:0,code:99}]") {
					h.want4xx = true
				}
				if k == "traffic" && (v == "x5" || v == "u0" || v == "u") {
					h.want4xx = true
				}
				add(h)
			}
		}
	}
	// (2) all tails on all assets with a few configurations
	for _, a := range assets {
		tl := tails(a)
		for tn, tv := range tl {
			for _, cfg := range []string{"", "segtimeline_1", "segtimelinenr_1", "snr_5", "segtimeline_1/start_1000", "traffic_u10d10", "traffic_u10", "timesubsstpp_en", "eccp_cenc", "eccp_cbcs", "drm_EZDRM-1-key-cbcs-test", "ato_1/chunkdur_0.5", "scte35_2", "periods_60", "patch_60", "statuscode_[{cycle:30,rsq:0,code:404}]/snr_5", "tsbd_1/ato_inf"} {
				h := mk(cfg, a, tv, "tail="+tn+"|cfg="+strings.SplitN(cfg, "_", 2)[0])
				if tn == "unknown-rep" && !strings.HasPrefix(cfg, "traffic") && !strings.Contains(cfg, "start_") {
					h.want404 = true // (with start_1000 the stream has not started at the probing instant: 425)
				}
				add(h)
			}
		}
		add(vfHostile{method: "GET", url: "/livesim2/" + a + "x/" + tl["mpd"] + "?nowMS=1000", kind: "unknown-asset", want404: true})
	}
	// (2b) chunked delivery with an availabilityTimeOffset a hair below, at and above typical segment durations (2, 6 and 8 s): the chunk
	// duration is their difference, which the media timescale rounds to zero or just above
	for _, a := range assets {
		tl := tails(a)
		for tn, tv := range tl {
			for _, v := range []string{"1.999995", "1.9999999", "2", "2.000001", "1.99999", "5.999996", "6", "7.999995", "7.9999999", "8", "8.000004"} {
				add(mk("ato_"+v+"/chunkdur_0.5", a, tv, "tail="+tn+"|cfg=ato-at-segment-duration"))
			}
		}
	}
	// (3) pairwise sample of keys/values
	rng := r.Rand(8)
	valNames := []string{}
	for n := range values {
		valNames = append(valNames, n)
	}
	for i := 0; i < r.Pick(1500, 30000); i++ {
		k1, k2 := keys[rng.Intn(len(keys))], keys[rng.Intn(len(keys))]
		pick := func(k string) string {
			if sp := special[k]; len(sp) > 0 && rng.Intn(2) == 0 {
				return sp[rng.Intn(len(sp))]
			}
			return values[valNames[rng.Intn(len(valNames))]]
		}
		a := assets[rng.Intn(len(assets))]
		tl := tails(a)
		tns := []string{"mpd", "video", "audio", "init", "video-time", "timesubs", "bu9", "below-snr", "audio-below-snr"}
		tn := tns[rng.Intn(len(tns))]
		if _, ok := tl[tn]; !ok {
			tn = "mpd"
		}
		h := mk(k1+"_"+pick(k1)+"/"+k2+"_"+pick(k2), a, tl[tn], "pair|"+k1+"+"+k2+"|tail="+tn)
		if rng.Intn(5) == 0 {
			h.url = strings.Replace(h.url, "nowMS=100000", []string{"nowMS=0", "nowMS=-5", "nowMS=abc", "nowMS=9223372036854775807", "nowDate=2024-01-01T00:00:00Z", "nowDate=garbage", "publishTime=x"}[rng.Intn(7)], 1)
		}
		add(h)
	}
	// (4) other endpoints
	for _, q := range []string{"", "?publishTime=2024-01-01T00:00:00Z", "?publishTime=garbage&nowMS=100000", "?publishTime=1970-01-01T00%3A01%3A30Z&nowMS=100000", "?nowMS=100000", "?publishTime=1970-01-01T00%3A01%3A30Z&nowMS=abc"} {
		for _, p := range []string{"/patch/livesim2/patch_60/segtimeline_1/testpic_2s/Manifest.mpp", "/patch/livesim2/testpic_2s/Manifest.mpp", "/patch/livesim2/patch_60/nosuch/Manifest.mpp", "/patch/", "/patch/livesim2/patch_60/segtimeline_1/periods_60/testpic_2s/Manifest.mpp", "/patch/x.mpd"} {
			add(vfHostile{method: "GET", url: p + q, kind: "patch"})
		}
	}
	for _, u := range []string{"/urlgen/", "/urlgen/mpds", "/urlgen/mpds?asset=testpic_2s", "/urlgen/mpds?asset=nosuch", "/urlgen/drms?asset=testpic_2s", "/urlgen/drms?asset=nosuch", "/urlgen/drms", "/urlgen/create", "/urlgen/create?asset=testpic_2s&mpd=Manifest.mpd&stl=nr",
		"/urlgen/create?asset=testpic_2s&mpd=Manifest.mpd&tsbd=x", "/urlgen/create?asset=testpic_2s&mpd=Manifest.mpd&ltgt=x", "/urlgen/create?asset=testpic_2s&mpd=Manifest.mpd&patch-ttl=x", "/urlgen/create?asset=nosuch&mpd=x&stl=tlt&tsbd=5&ato=inf&periods=0",
		"/urlgen/create?asset=testpic_2s&mpd=nosuch", "/urlgen/create?drm=nosuch&asset=testpic_2s&mpd=Manifest.mpd", "/urlgen/create?asset=testpic_2s&mpd=Manifest.mpd&statuscode=%5B%7B", "/urlgen/xyz", "/assets", "/vod", "/vod/testpic_2s/Manifest.mpd", "/vod/../../etc/passwd",
		"/vod/testpic_2s/", "/config", "/version", "/healthz", "/reqcount", "/static/time.txt", "/static/nosuch", "/livesim/testpic_2s/Manifest.mpd", "/dash/vod/testpic_2s/Manifest.mpd", "/", "/nosuch", "/metrics"} {
		add(vfHostile{method: "GET", url: u, kind: "page:" + strings.SplitN(strings.TrimPrefix(u, "/"), "?", 2)[0]})
	}
	for _, m := range []string{"HEAD", "OPTIONS", "DELETE", "PUT", "PATCH"} {
		for _, u := range []string{"/livesim2/testpic_2s/Manifest.mpd?nowMS=1000", "/livesim2/testpic_2s/V300/1.m4s?nowMS=100000", "/vod/testpic_2s/Manifest.mpd", "/api/cmaf-ingests", "/static/time.txt", "/patch/x"} {
			add(vfHostile{method: m, url: u, kind: "method:" + m})
		}
	}
	// licence requests
	la := "/livesim2/eccp_cenc/testpic_2s/eccp.json"
	for i, b := range []string{`{"kids":["KID"],"type":"temporary"}`, `{"kids":["nrQFDeRLSAKTLifXUIPiZg"],"type":"temporary"}`, `{"kids":["AAAA"],"type":"temporary"}`, `{"kids":["!!!!"],"type":"temporary"}`, `{"kids":[],"type":"temporary"}`, `{"kids":null}`, `{}`, `not json`, ``, `{"kids":[1,2]}`, `[]`,
		`{"kids":["` + strings.Repeat("A", 1<<20) + `"]}`, `{"kids":["KID","KID","nrQFDeRLSAKTLifXUIPiZg"]}`} {
		b = strings.ReplaceAll(b, "KID", "KID_PLACEHOLDER")
		for _, p := range []string{la, "/livesim2/testpic_2s/eccp.json", "/eccp.json", "/livesim2/eccp_cenc/testpic_2s/other.json", "/x"} {
			add(vfHostile{method: "POST", url: p, body: b, ctype: "application/json", kind: fmt.Sprintf("licence|body%d", i)})
		}
	}
	// ingest API
	for i, b := range []string{`{}`, `not json`, `{"destRoot":"http://127.0.0.1:1","destName":"x","livesimURL":"/livesim2/nosuch/Manifest.mpd","testNowMS":1000}`, `{"destRoot":"http://127.0.0.1:1","destName":"x","livesimURL":"/livesim2/tsbd_x/testpic_2s/Manifest.mpd","testNowMS":1000}`,
		`{"destRoot":"","destName":"","livesimURL":"","testNowMS":-5}`, `{"destRoot":"http://127.0.0.1:1","livesimURL":"/livesim2/testpic_2s/V300/1.m4s","testNowMS":100000}`, `{"destRoot":"::","destName":"x","livesimURL":"/livesim2/testpic_2s/Manifest.mpd","testNowMS":100000,"duration":-4}`,
		`{"destRoot":"http://127.0.0.1:1","destName":"x","livesimURL":"/livesim2/periods_60/testpic_2s/Manifest_thumbs.mpd","testNowMS":100000}`, `{"destRoot":"http://127.0.0.1:1","destName":"x","livesimURL":"/livesim2/segtimeline_1/ato_inf/testpic_2s/Manifest.mpd","testNowMS":100000}`} {
		add(vfHostile{method: "POST", url: "/api/cmaf-ingests", body: b, ctype: "application/json", kind: fmt.Sprintf("api-create|body%d", i)})
	}
	for _, id := range []string{"0", "1", "-1", "abc", "18446744073709551616", "999999", "1/step", "2/step", "abc/step", "1/step/x", strings.Repeat("9", 40)} {
		add(vfHostile{method: "GET", url: "/api/cmaf-ingests/" + id, kind: "api-get"})
		add(vfHostile{method: "DELETE", url: "/api/cmaf-ingests/" + id, kind: "api-delete"})
	}
	for _, id := range []string{"1", "2", "3", "1", "7"} { // steps and deletes of sessions that have ended (destination unreachable => init upload fails)
		add(vfHostile{method: "GET", url: "/api/cmaf-ingests/" + id + "/step", kind: "api-step-ended"})
		add(vfHostile{method: "DELETE", url: "/api/cmaf-ingests/" + id, kind: "api-delete-ended"})
		add(vfHostile{method: "GET", url: "/api/cmaf-ingests/" + id + "/step", kind: "api-step-ended"})
	}
	// a well-formed kid for this asset (so that the valid licence path is exercised too)
	kidB64 := ""
	if mr := vfGet(s, "/livesim2/eccp_cenc/testpic_2s/Manifest.mpd?nowMS=100000"); mr.Code == 200 {
		if m := regexp.MustCompile(`default_KID="([0-9a-f-]+)"`).FindSubmatch(mr.Body); m != nil {
			hexs := strings.ReplaceAll(string(m[1]), "-", "")
			raw := make([]byte, 16)
			fmt.Sscanf(hexs, "%x", &raw)
			kidB64 = strings.TrimRight(strings.NewReplacer("+", "-", "/", "_").Replace(b64(raw)), "=")
		}
	}
	sampled := 0
	noTermination := 0
	for i, h := range reqs {
		h.body = strings.ReplaceAll(h.body, "KID_PLACEHOLDER", kidB64)
		if !r.Begin(i+1, h.method+" "+vfTrunc([]byte(h.url), 300)) {
			continue
		}
		srv := s
		if strings.Contains(h.kind, "page:urlgen") && i%2 == 1 {
			srv = s2
		}
		type res struct {
			code int
			n    int
			body string
		}
		done := make(chan res, 1)
		go func() {
			rr := httptest.NewRecorder()
			var req = httptest.NewRequest(h.method, "http://example.com"+vfSafeURL(h.url), strings.NewReader(h.body))
			if h.ctype != "" {
				req.Header.Set("Content-Type", h.ctype)
			}
			srv.Router.ServeHTTP(rr, req)
			done <- res{rr.Code, rr.Body.Len(), vfTrunc(rr.Body.Bytes(), 120)}
		}()
		var out res
		select {
		case out = <-done:
		case <-time.After(45 * time.Second):
			// second observation a minute later: a request that returns meanwhile was slow (inconclusive), not endless
			d1 := vfHandlerFrames()
			late := false
			select {
			case out = <-done:
				late = true
			case <-time.After(60 * time.Second):
			}
			if late {
				r.Inconclusive("request-slower-than-45s")
				et.next()
				continue
			}
			d2 := vfHandlerFrames()
			sig := "no-termination:unclassified"
			if d1 != "" && d1 == d2 {
				sig = "no-termination:" + d1
			}
			r.Violation(sig, map[string]any{"method": h.method, "url": vfTrunc([]byte(h.url), 400), "body": vfTrunc([]byte(h.body), 200), "watchdog_s": 105})
			if noTermination++; noTermination >= 3 {
				// the verdict is decided; every further stuck request would cost another watchdog period
				r.Add("requests_not_run_after_repeated_no_termination", int64(len(reqs)-i-1))
				break
			}
			continue
		}
		r.Eval(1)
		errOut := et.next()
		det := map[string]any{"method": h.method, "url": vfTrunc([]byte(h.url), 400), "status": out.code, "response": out.body}
		if h.body != "" {
			det["request_body"] = vfTrunc([]byte(h.body), 200)
		}
		if out.code == 500 && out.n == 0 && h.method != "HEAD" {
			det["stderr"] = vfTrunc([]byte(errOut), 600)
			r.Violation(vfPanicSig(errOut), det)
			continue
		}
		if strings.Contains(errOut, "panic:") && h.method == "HEAD" {
			det["stderr"] = vfTrunc([]byte(errOut), 600)
			r.Violation(vfPanicSig(errOut), det)
			continue
		}
		if h.want4xx && !(out.code >= 400 && out.code < 500 && out.n > 0) {
			r.Violation(fmt.Sprintf("malformed-parameter-not-refused-with-4xx-message:%s", strings.SplitN(strings.TrimPrefix(h.kind, "key="), "|", 2)[0]), det)
			continue
		}
		if h.want404 && out.code != 404 {
			r.Violation("unknown-asset-or-representation-not-404", det)
			continue
		}
		oc := fmt.Sprintf("%dxx", out.code/100)
		if out.code >= 500 {
			oc = "5xx-with-message"
		}
		r.Class(h.kind + "|" + oc)
		if sampled < 4 && out.code >= 400 && i%37 == 0 {
			sampled++
			r.Sample(det)
		}
	}
	if r.NViolations() > 0 {
		t.Fail()
	}
}

func vfSafeURL(u string) string {
	// httptest.NewRequest panics on URLs it cannot parse; escape what the parser rejects but keep hostile content
	u = strings.ReplaceAll(u, " ", "%20")
	u = strings.ReplaceAll(u, "%zz", "%25zz")
	return u
}

func vfHandlerFrames() string {
	buf := make([]byte, 1<<20)
	buf = buf[:runtime.Stack(buf, true)]
	for _, g := range strings.Split(string(buf), "\n\n") {
		if !strings.Contains(g, "ServeHTTP") || !strings.Contains(g, "livesim2/cmd/livesim2/app.") {
			continue
		}
		for _, l := range strings.Split(g, "\n") {
			if strings.Contains(l, "livesim2/cmd/livesim2/app.") && !strings.Contains(l, "zz_verif") && !strings.Contains(l, "TestVerif") {
				st := "running"
				if strings.Contains(g, "[chan send") || strings.Contains(g, "[chan receive") || strings.Contains(g, "[select") {
					st = "blocked"
				}
				return st + "@" + strings.TrimSpace(strings.SplitN(strings.TrimPrefix(l, "github.com/Dash-Industry-Forum/livesim2/"), "(0x", 2)[0])
			}
		}
	}
	return ""
}

func b64(b []byte) string {
	const tbl = "ABCDEFGHIJKLMNOPQRSTUVWXYZabcdefghijklmnopqrstuvwxyz0123456789+/"
	var sb strings.Builder
	for i := 0; i < len(b); i += 3 {
		var v uint32
		n := 0
		for j := 0; j < 3; j++ {
			v <<= 8
			if i+j < len(b) {
				v |= uint32(b[i+j])
				n++
			}
		}
		for j := 0; j < 4; j++ {
			if j <= n {
				sb.WriteByte(tbl[(v>>(18-6*uint(j)))&63])
			} else {
				sb.WriteByte('=')
			}
		}
	}
	return sb.String()
}
