package app

// C09 – low-latency chunked delivery is the same media, never delivered early.
// A recording ResponseWriter timestamps every Write/Flush; the concatenated body is compared sample for sample with the
// whole-segment response; chunk spans are judged logically; the never-early check is one-sided (load can only hide, never fabricate).

import (
	"context"
	"encoding/binary"
	"errors"
	"fmt"
	"net/http"
	"net/http/httptest"
	"strings"
	"sync"
	"testing"
	"time"

	"verif.local/vlib/ora"
	"verif.local/vlib/rep"
)

type vfWriteEv struct {
	at    time.Duration // since t0
	total int           // cumulative bytes after this write
	flush bool
}

type vfRecWriter struct {
	mu   sync.Mutex
	hdr  http.Header
	code int
	body []byte
	evs  []vfWriteEv
	t0   time.Time
	// failAt > 0: the failAt-th and every later Write fails (the client has gone away)
	failAt, writes int
}

func (w *vfRecWriter) Header() http.Header { return w.hdr }
func (w *vfRecWriter) WriteHeader(c int) {
	if w.code == 0 {
		w.code = c
	}
}
func (w *vfRecWriter) Write(b []byte) (int, error) {
	w.mu.Lock()
	defer w.mu.Unlock()
	w.writes++
	if w.failAt > 0 && w.writes >= w.failAt {
		return 0, errors.New("client went away")
	}
	if w.code == 0 {
		w.code = 200
	}
	w.body = append(w.body, b...)
	w.evs = append(w.evs, vfWriteEv{time.Since(w.t0), len(w.body), false})
	return len(b), nil
}
func (w *vfRecWriter) Flush() {
	w.mu.Lock()
	w.evs = append(w.evs, vfWriteEv{time.Since(w.t0), len(w.body), true})
	w.mu.Unlock()
}

type vfChunk struct {
	endOff   int
	tfdt     uint64
	dur      uint64
	nSamples int
}

// vfChunks walks the top-level boxes of a chunked body.
func vfChunks(body []byte, ps *ora.ParsedSeg) (chunks []vfChunk, stypPositions []int, err error) {
	pos := 0
	fi := 0
	for pos+8 <= len(body) {
		sz := int(binary.BigEndian.Uint32(body[pos:]))
		typ := string(body[pos+4 : pos+8])
		if sz < 8 || pos+sz > len(body) {
			return nil, nil, fmt.Errorf("bad box %q size %d at %d", typ, sz, pos)
		}
		if typ == "styp" {
			stypPositions = append(stypPositions, pos)
		}
		pos += sz
		if typ == "mdat" {
			if fi >= len(ps.Frags) {
				return nil, nil, fmt.Errorf("more mdat boxes than fragments")
			}
			f := ps.Frags[fi]
			chunks = append(chunks, vfChunk{pos, f.Tfdt, f.Dur, f.NSamples})
			fi++
		}
	}
	if pos != len(body) {
		return nil, nil, fmt.Errorf("trailing bytes")
	}
	return
}

func TestVerifC09(t *testing.T) {
	r := rep.New("C09")
	r.Rule("case = (asset, representation, availabilityTimeOffset, chunkdur, request instant {at advertised availability, mid-way, segment end, far later}, live index); " +
		"class = (asset, rep kind, ato as fraction of the segment, instant kind, number of chunks, paced/unpaced); counted when the chunked body was compared with the whole segment and every chunk's span and write time were judged")
	r.Assume("never-early is one-sided: t_request + elapsed(handler entry .. Write returned) + 2 ms >= AST + chunk end; both clock errors make the check more lenient")
	r.Assume("lateness is not judged (latency claim, out of reach); with DRM the chunked body must decrypt (CPIX key) to the samples of the clear whole segment")
	defer func() { r.Done(); t.Log(r.Summary()) }()
	worlds := vfWorlds(t, false)
	type job struct {
		w      vfWorld
		rp     *ora.Rep
		n      int64
		atoMS  int64
		chunkS string
		off    int64 // request instant relative to advertised availability
		kind   string
		startS int64
	}
	var paced, unpaced, mustPaced []job
	for wi, w := range worlds {
		a := w.Asset
		if a.Ref.ContentType != "video" {
			continue
		}
		N := int64(a.Ref.N())
		for _, rid := range a.RepIDs {
			rp := a.Reps[rid]
			if rp.ContentType != "video" && rp.ContentType != "audio" {
				continue
			}
			if rp.ContentType == "audio" && rp.SampleDur == 0 {
				continue
			}
			// the last index has a decode time beyond 2^32 ticks (64-bit tfdt: the box grows and data offsets move)
			loopTicks := a.Ref.Dur()
			farN := (int64(uint64(1)<<32/loopTicks)+2)*N + 1
			for k, n := range []int64{0, 1, N, 2*N + 1, 1000*N + N/2, farN} {
				_, vs, ve := a.LiveSeg(a.Ref, n)
				dMS := int64((ve - vs) * 1000 / a.Ref.Timescale)
				// sample duration of this rep in ms (ceil)
				sampleMS := int64(1)
				if len(rp.Segs[0].Samples) > 0 {
					sampleMS = int64(uint64(rp.Segs[0].Samples[0].Dur)*1000/rp.Timescale) + 1
				}
				atos := []int64{dMS - sampleMS, dMS * 3 / 4, dMS / 2, dMS / 4, dMS / 16}
				for ai, ato := range atos {
					if ato <= 0 || ato >= dMS {
						continue
					}
					if !r.Thorough() && (ai+k+wi+int(r.Seed))%3 != 0 {
						continue
					}
					startS := int64(0)
					if (ai+k)%4 == 3 {
						startS = 1000
					}
					cs := []string{"0.5", "1", "0.1"}[(ai+k)%3]
					unpaced = append(unpaced, job{w, rp, n, ato, cs, ato + 1, "segment-end", startS}, job{w, rp, n, ato, cs, 50_000, "far-later", startS})
					if k < 3 && ato <= 2500 && (ai+k+wi)%4 == 0 {
						paced = append(paced, job{w, rp, n, ato, cs, 0, "at-availability", startS})
						if ai%2 == 0 {
							paced = append(paced, job{w, rp, n, ato, cs, ato / 2, "mid-way", startS})
						}
					}
					unpaced = append(unpaced, job{w, rp, n, ato, cs, -1, "too-early", startS})
					if ai == 1 || ai == 3 {
						unpaced = append(unpaced, job{w, rp, n, ato, cs, ato + 1, "after-failed-write", startS})
					}
					// paced requests with a non-zero start time for every representation (the pacing clock includes AST)
					if k == 1 && ai == 2 && ato <= 3000 {
						mustPaced = append(mustPaced, job{w, rp, n, ato, cs, 0, "at-availability", 1000})
						if ato >= 600 {
							mustPaced = append(mustPaced, job{w, rp, n, ato, cs, 0, "cancelled-midway", 0})
						}
						// the next segment may have another duration (alternating assets): its offset is taken from its own duration,
						// an offset that leaves no chunk duration is outside the statement
						_, vs2, ve2 := a.LiveSeg(a.Ref, n+1)
						if ato2 := int64((ve2-vs2)*1000/a.Ref.Timescale) / 2; ato2 > 0 && ato2 <= 3000 {
							mustPaced = append(mustPaced, job{w, rp, n + 1, ato2, cs, ato2 / 3, "mid-way", 1_700_000_000})
						}
					}
				}
			}
		}
	}
	if !r.Thorough() && len(paced) > 32 {
		rng := r.Rand(9)
		rng.Shuffle(len(paced), func(i, j int) { paced[i], paced[j] = paced[j], paced[i] })
		paced = paced[:32]
	}
	paced = append(paced, mustPaced...)
	var sampled int
	var smu sync.Mutex
	run := func(j job, isPaced bool) {
		a := j.w.Asset
		rp := j.rp
		cfg := fmt.Sprintf("ato_%d.%03d/chunkdur_%s", j.atoMS/1000, j.atoMS%1000, j.chunkS)
		whole := fmt.Sprintf("ato_%d.%03d", j.atoMS/1000, j.atoMS%1000)
		if j.startS != 0 {
			cfg = fmt.Sprintf("start_%d/", j.startS) + cfg
			whole = fmt.Sprintf("start_%d/", j.startS) + whole
		}
		A := a.AvailMS(a.Ref, j.n, j.startS, j.atoMS) // advertised availability (reference segment end - ato)
		if rp.ContentType == "audio" {
			// audio segments end at the first frame boundary at or after the video end
			_, ae := a.AudioSegTimes(rp, j.n)
			am := int64((ae*1000 + rp.Timescale - 1) / rp.Timescale)
			if x := j.startS*1000 + am - j.atoMS; x > A {
				A = x
			}
		}
		nowMS := A + j.off
		if nowMS < j.startS*1000 {
			return
		}
		u := vfURL(cfg, j.w.Ref.Path, vfMediaURL(rp, uint64(j.n)), nowMS)
		if j.kind == "after-failed-write" {
			// a client that goes away in the middle of another chunked response must leave nothing behind for the next response
			fu := vfURL(cfg, j.w.Ref.Path, vfMediaURL(rp, uint64(j.n+1)), nowMS+20_000)
			for _, fa := range []int{2, 1} {
				frec := &vfRecWriter{hdr: http.Header{}, failAt: fa}
				frec.t0 = time.Now()
				j.w.Srv.Router.ServeHTTP(frec, httptest.NewRequest("GET", fu, nil))
			}
		}
		rec := &vfRecWriter{hdr: http.Header{}}
		req := httptest.NewRequest("GET", u, nil)
		if j.kind == "cancelled-midway" {
			// the client goes away (or the server's request timeout fires) while the handler waits for a chunk
			ctx, cancel := context.WithCancel(req.Context())
			req = req.WithContext(ctx)
			tm := time.AfterFunc(time.Duration(j.atoMS/3)*time.Millisecond, cancel)
			defer tm.Stop()
			defer cancel()
		}
		rec.t0 = time.Now()
		j.w.Srv.Router.ServeHTTP(rec, req)
		r.Eval(1)
		sigp := rp.ContentType + ":"
		det := func(what string) map[string]any {
			return map[string]any{"url": u, "n": j.n, "ato_ms": j.atoMS, "advertised_availability_ms": A, "what": what}
		}
		if j.kind == "too-early" {
			// video: the advertised availability time is the segment end minus ato; audio may end up to one frame later
			if rec.code != 425 && rp.ContentType == "video" {
				r.Violation(sigp+"request-before-advertised-availability-not-refused", det(fmt.Sprintf("status %d", rec.code)))
			}
			r.Class(fmt.Sprintf("%s|%s|too-early", j.w.Ref.Path, rp.ContentType))
			return
		}
		if rec.code != 200 {
			sig := fmt.Sprintf("status-%d", rec.code)
			if rec.code == 500 && len(rec.body) == 0 {
				sig = "crash"
			}
			r.Violation(sigp+sig, det(vfTrunc(rec.body, 80)))
			return
		}
		if j.kind == "cancelled-midway" {
			// whatever was written before the handler gave up must still not be early; completeness is not demanded
			if cs, err := ora.ParseSegment(rec.body, rp.Trex); err == nil {
				if chunks, _, err := vfChunks(rec.body, cs); err == nil {
					for i, c := range chunks {
						var at time.Duration = -1
						for _, ev := range rec.evs {
							if ev.total >= c.endOff {
								at = ev.at
								break
							}
						}
						endMS := j.startS*1000 + int64((c.tfdt+c.dur)*1000/rp.Timescale)
						if at >= 0 && nowMS+at.Milliseconds()+2 < endMS {
							r.Violation(sigp+"chunk-written-before-its-end-time:after-cancellation", det(fmt.Sprintf("chunk %d ends at %d ms, written at request(%d)+%d ms; request cancelled after %d ms", i, endMS, nowMS, at.Milliseconds(), j.atoMS/3)))
							return
						}
					}
					r.Add("chunks_judged_in_cancelled_requests", int64(len(chunks)))
				}
			}
			r.Class(fmt.Sprintf("%s|%s|cancelled-midway", j.w.Ref.Path, rp.ContentType))
			return
		}
		// whole-segment reference (far later, so that it is certainly available)
		wu := vfURL(whole, j.w.Ref.Path, vfMediaURL(rp, uint64(j.n)), A+j.atoMS+5)
		wr := vfGet(j.w.Srv, wu)
		r.Eval(1)
		if wr.Code != 200 {
			r.Violation(sigp+fmt.Sprintf("whole-segment-status-%d", wr.Code), det(wu))
			return
		}
		cs, err1 := ora.ParseSegment(rec.body, rp.Trex)
		ws, err2 := ora.ParseSegment(wr.Body, rp.Trex)
		if err1 != nil || err2 != nil {
			r.Violation(sigp+"unparseable", det(fmt.Sprint(err1, err2)))
			return
		}
		// same samples
		if len(cs.Samples) != len(ws.Samples) {
			r.Violation(sigp+"sample-count-differs-from-whole-segment", det(fmt.Sprintf("%d vs %d", len(cs.Samples), len(ws.Samples))))
			return
		}
		for i := range cs.Samples {
			if cs.Samples[i] != ws.Samples[i] {
				r.Violation(sigp+"sample-differs-from-whole-segment", det(fmt.Sprintf("sample %d: %+v vs %+v", i, cs.Samples[i], ws.Samples[i])))
				return
			}
		}
		if cs.Tfdt != ws.Tfdt || cs.TotalDur != ws.TotalDur || cs.Seq != ws.Seq {
			r.Violation(sigp+"timing-differs-from-whole-segment", det(fmt.Sprintf("tfdt %d/%d dur %d/%d seq %d/%d", cs.Tfdt, ws.Tfdt, cs.TotalDur, ws.TotalDur, cs.Seq, ws.Seq)))
			return
		}
		chunks, styps, err := vfChunks(rec.body, cs)
		if err != nil {
			r.Violation(sigp+"chunk-structure", det(err.Error()))
			return
		}
		if ws.HasStyp && (len(styps) != 1 || styps[0] != 0) {
			r.Violation(sigp+"styp-not-exactly-at-start-of-first-chunk", det(fmt.Sprint(styps)))
		}
		// decode times per sample equal to the whole segment: chunks contiguous and in order
		exp := cs.Tfdt
		for i, c := range chunks {
			if c.tfdt != exp {
				r.Violation(sigp+"chunks-not-contiguous", det(fmt.Sprintf("chunk %d starts %d, previous ended %d", i, c.tfdt, exp)))
				return
			}
			for _, f := range cs.Frags[i : i+1] {
				if f.Seq != ws.Seq {
					r.Violation(sigp+"chunk-sequence-number", det(fmt.Sprintf("chunk %d seq %d", i, f.Seq)))
				}
			}
			exp += c.dur
		}
		// span: no chunk spans more than (segment duration - ato) + one sample
		segDur := cs.TotalDur
		maxSample := uint64(0)
		for _, s := range cs.Samples {
			if uint64(s.Dur) > maxSample {
				maxSample = uint64(s.Dur)
			}
		}
		atoTicks := uint64(j.atoMS) * rp.Timescale / 1000
		// "segment duration": the larger of this segment's own duration and the reference video segment's (what the MPD advertises)
		nominal := segDur
		{
			_, vs, ve := a.LiveSeg(a.Ref, j.n)
			if x := (ve - vs) * rp.Timescale / a.Ref.Timescale; x > nominal {
				nominal = x
			}
		}
		limit := maxSample
		if atoTicks < nominal {
			limit = nominal - atoTicks + maxSample
		}
		for i, c := range chunks {
			if c.dur > limit {
				r.Violation(sigp+"chunk-spans-more-than-segment-duration-minus-offset", det(fmt.Sprintf("chunk %d spans %d ticks, segment %d, offset %d, one sample %d (timescale %d)", i, c.dur, segDur, atoTicks, maxSample, rp.Timescale)))
				return
			}
		}
		// never early: the Write that completes chunk i
		for i, c := range chunks {
			var at time.Duration = -1
			for _, ev := range rec.evs {
				if ev.total >= c.endOff {
					at = ev.at
					break
				}
			}
			if at < 0 {
				continue
			}
			endMS := j.startS*1000 + int64((c.tfdt+c.dur)*1000/rp.Timescale) // floor: lenient
			if nowMS+at.Milliseconds()+2 < endMS {
				r.Violation(sigp+"chunk-written-before-its-end-time", det(fmt.Sprintf("chunk %d ends at %d ms, written at request(%d)+%d ms", i, endMS, nowMS, at.Milliseconds())))
				return
			}
		}
		frac := "1/16"
		_, vs, ve := a.LiveSeg(a.Ref, j.n)
		dMS := int64((ve - vs) * 1000 / a.Ref.Timescale)
		switch {
		case j.atoMS*4 >= dMS*3+dMS/8:
			frac = "d-1sample"
		case j.atoMS*4 >= dMS*3:
			frac = "3/4"
		case j.atoMS*2 >= dMS:
			frac = "1/2"
		case j.atoMS*4 >= dMS:
			frac = "1/4"
		}
		r.Class(fmt.Sprintf("%s|%s|ato=%s|%s|chunks=%d|paced=%v", j.w.Ref.Path, rp.ContentType, frac, j.kind, len(chunks), isPaced))
		smu.Lock()
		if sampled < 4 && isPaced {
			sampled++
			var wt []string
			for i, c := range chunks {
				for _, ev := range rec.evs {
					if ev.total >= c.endOff {
						wt = append(wt, fmt.Sprintf("chunk%d end=%dms written@+%dms", i, (c.tfdt+c.dur)*1000/rp.Timescale, ev.at.Milliseconds()))
						break
					}
				}
			}
			r.Sample(map[string]any{"url": u, "chunks": len(chunks), "write_times": wt})
		}
		smu.Unlock()
	}
	// unpaced sequentially (no sleeps), paced in parallel (they only sleep)
	// every request may sleep inside the handler (the last partial chunk is paced late), so all of them run in parallel
	var wg sync.WaitGroup
	sem := make(chan struct{}, 96)
	for i, j := range unpaced {
		if !r.Begin(i+1, fmt.Sprintf("%s %s n=%d ato=%d %s", j.w.Ref.Path, j.rp.ID, j.n, j.atoMS, j.kind)) {
			continue
		}
		wg.Add(1)
		sem <- struct{}{}
		go func(j job) {
			defer func() { <-sem; wg.Done() }()
			run(j, false)
		}(j)
	}
	for _, j := range paced {
		wg.Add(1)
		sem <- struct{}{}
		go func(j job) {
			defer func() { <-sem; wg.Done() }()
			run(j, true)
		}(j)
	}
	wg.Wait()
	r.Add("paced_requests", int64(len(paced)))
	r.Add("unpaced_requests", int64(len(unpaced)))
	_ = strings.Join
	// with DRM: the chunked, encrypted body decrypts to the samples of the clear whole segment (every chunk carries what is needed)
	if r.Begin(100_000, "chunked with DRM") {
		vfC09DRM(t, r)
	}
	if r.NViolations() > 0 {
		t.Fail()
	}
}

func vfC09DRM(t *testing.T, r *rep.R) {
	ds := vfNewServer(t, ServerConfig{VodRoot: vfBundledVod(), DrmCfgFile: vfRepoRoot() + "/pkg/drm/testdata/drm_config_test.json"})
	cpix, err := ora.ReadCPIX(vfRepoRoot() + "/pkg/drm/testdata/cpix_1key_cbcs_test.xml")
	if err != nil {
		r.Inconclusive("cpix-file-not-readable")
		return
	}
	for _, asset := range []string{"testpic_2s", "testpic_8s"}[:r.Pick(1, 2)] {
		a, err := ora.LoadAsset(vfBundledVod(), asset, "Manifest.mpd", false)
		if err != nil {
			t.Fatal(err)
		}
		segMS := a.LoopMS / int64(a.Ref.N())
		for _, rid := range a.RepIDs {
			rp := a.Reps[rid]
			if !(strings.HasPrefix(rp.Codecs, "avc") || strings.HasPrefix(rp.Codecs, "mp4a.40")) {
				continue
			}
			ck := cpix.KeyFor(rp.ContentType)
			if ck == nil {
				continue
			}
			for _, n := range []int64{3, int64(a.Ref.N()) + 1, 1000*int64(a.Ref.N()) + 2} {
				for _, atoMS := range []int64{segMS / 2, segMS * 3 / 4} {
					drm := "drm_EZDRM-1-key-cbcs-test"
					cfg := fmt.Sprintf("%s/ato_%d.%03d/chunkdur_0.5", drm, atoMS/1000, atoMS%1000)
					tm := a.AvailMS(a.Ref, n, 0, 0) + 60 // after the segment end: no pacing
					ir := vfGet(ds, vfURL(drm, asset, rp.InitPath, tm))
					cr := vfGet(ds, vfURL(cfg, asset, vfMediaURL(rp, uint64(n)), tm))
					wr := vfGet(ds, vfURL("", asset, vfMediaURL(rp, uint64(n)), tm))
					r.Eval(3)
					sigp := rp.ContentType + ":drm:"
					det := func(what string) map[string]any {
						return map[string]any{"chunked_url": vfURL(cfg, asset, vfMediaURL(rp, uint64(n)), tm), "what": what}
					}
					if ir.Code != 200 || cr.Code != 200 || wr.Code != 200 {
						r.Violation(sigp+fmt.Sprintf("status-%d-%d-%d", ir.Code, cr.Code, wr.Code), det("init / chunked / clear whole segment"))
						continue
					}
					dec, err := ora.DecryptSegment(ir.Body, cr.Body, ck.Key)
					if err != nil {
						r.Violation(sigp+"chunked-body-does-not-decrypt", det(err.Error()))
						continue
					}
					ws, err := ora.ParseSegment(wr.Body, rp.Trex)
					if err != nil {
						continue
					}
					same := len(dec.Samples) == len(ws.Samples) && dec.Tfdt == ws.Tfdt
					for i := 0; same && i < len(ws.Samples); i++ {
						same = dec.Samples[i] == ws.Samples[i]
					}
					if !same {
						r.Violation(sigp+"decrypted-chunked-body-differs-from-clear-whole-segment", det(fmt.Sprintf("%d vs %d samples", len(dec.Samples), len(ws.Samples))))
						continue
					}
					r.Class(fmt.Sprintf("%s|%s|drm-chunked|chunks=%d", asset, rp.ContentType, len(dec.Frags)))
				}
			}
		}
	}
}
