package app

// C10 – advertised key ids, init segments, licences and ciphertext agree.
// End-to-end: MPD default_KID == tenc KID of the served init; licence endpoint returns a key for that id;
// decrypt(served segment, served init, key) == clear segment served for the same URL and instant (whole and chunked).

import (
	"encoding/json"
	"fmt"
	"net/http"
	"net/http/httptest"
	"net/url"
	"strings"
	"sync"
	"testing"
	"time"

	"verif.local/vlib/ora"
	"verif.local/vlib/rep"
)

func vfSamplesEqual(a, b *ora.ParsedSeg) (bool, string) {
	if len(a.Samples) != len(b.Samples) {
		return false, fmt.Sprintf("sample count %d vs %d", len(a.Samples), len(b.Samples))
	}
	for i := range a.Samples {
		if a.Samples[i] != b.Samples[i] {
			return false, fmt.Sprintf("sample %d: %+v vs %+v", i, a.Samples[i], b.Samples[i])
		}
	}
	if a.Tfdt != b.Tfdt || a.Seq != b.Seq || a.TotalDur != b.TotalDur {
		return false, fmt.Sprintf("tfdt %d/%d seq %d/%d dur %d/%d", a.Tfdt, b.Tfdt, a.Seq, b.Seq, a.TotalDur, b.TotalDur)
	}
	return true, ""
}

func TestVerifC10(t *testing.T) {
	r := rep.New("C10")
	r.Rule("case = (asset, DRM mode {eccp-cenc, eccp-cbcs, CPIX package}, representation, live index, whole|chunked(unpaced|paced)); class = (asset, mode, rep kind, relation {kid: mpd=init, licence, decrypt=clear}, " +
		"delivery, n mod N / wrap); counted when the relation was actually evaluated on served bytes")
	r.Assume("decryption by mp4ff (trusted base); CPIX keys/ivs read from the XML by the harness itself")
	r.Assume("a DRM request on a pre-encrypted asset must be answered with a status >= 400 (any message)")
	defer func() { r.Done(); t.Log(r.Summary()) }()
	vfInitLog()
	drmCfg := vfRepoRoot() + "/pkg/drm/testdata/drm_config_test.json"
	bs := vfNewServer(t, ServerConfig{VodRoot: vfBundledVod(), DrmCfgFile: drmCfg})
	groot := t.TempDir()
	if err := ora.WriteStandardGenAssets(groot, vfBundledVod()); err != nil {
		t.Fatal(err)
	}
	preKey := []byte("0123456789abcdef")
	preKID := []byte{0x28, 0x80, 0xfe, 1, 2, 3, 4, 5, 6, 7, 8, 9, 10, 11, 12, 13}
	preIV := []byte{1, 2, 3, 4, 5, 6, 7, 8}
	if err := ora.WritePreEncrypted(groot, vfBundledVod(), "gen/preenc", "testpic_2s", "Manifest.mpd", []string{"V300", "A48"}, preKey, preKID, preIV); err != nil {
		t.Fatalf("pre-encrypted asset: %v", err)
	}
	gs := vfNewServer(t, ServerConfig{VodRoot: groot, DrmCfgFile: drmCfg})
	cpix1, err1 := ora.ReadCPIX(vfRepoRoot() + "/pkg/drm/testdata/cpix_1key_cbcs_test.xml")
	cpix2, err2 := ora.ReadCPIX(vfRepoRoot() + "/pkg/drm/testdata/cpix_2keys_cbcs_test.xml")
	if err1 != nil || err2 != nil {
		t.Fatalf("cpix: %v %v", err1, err2)
	}
	type mode struct {
		cfg    string
		scheme string
		cpix   *ora.CPIX
	}
	modes := []mode{{"eccp_cenc", "cenc", nil}, {"eccp_cbcs", "cbcs", nil}, {"drm_EZDRM-2-keys-cbcs-test", "cbcs", cpix2}, {"drm_EZDRM-1-key-cbcs-test", "cbcs", cpix1}}
	type wref struct {
		srv  *Server
		root string
		ref  vfAssetRef
	}
	var ws []wref
	for _, ar := range vfBundledAssets {
		ws = append(ws, wref{bs, vfBundledVod(), ar})
	}
	for _, ar := range vfGenAssets {
		ws = append(ws, wref{gs, groot, ar})
	}
	// a server whose representation data comes from the metadata cache written by another instance: protection must not depend on it
	{
		meta := t.TempDir()
		_ = vfNewServer(t, ServerConfig{VodRoot: vfBundledVod(), DrmCfgFile: drmCfg, RepDataRoot: meta, WriteRepData: true})
		cs := vfNewServer(t, ServerConfig{VodRoot: vfBundledVod(), DrmCfgFile: drmCfg, RepDataRoot: meta})
		for _, ar := range vfBundledAssets {
			if ar.Path == "testpic_2s" && ar.MPD == "Manifest.mpd" || r.Thorough() {
				ws = append(ws, wref{cs, vfBundledVod(), ar})
			}
		}
	}
	caseNo := 0
	sampled := 0
	var pacedJobs []func()
	for wi, w := range ws {
		a, err := ora.LoadAsset(w.root, w.ref.Path, w.ref.MPD, false)
		if err != nil {
			t.Fatal(err)
		}
		if a.Ref.ContentType != "video" {
			continue
		}
		// encryptable representations
		var reps []*ora.Rep
		for _, id := range a.RepIDs {
			rp := a.Reps[id]
			if w.ref.Gen && rp.ContentType == "video" {
				continue // generated video payloads are not AVC NAL units, so they cannot be sub-sample encrypted
			}
			if strings.HasPrefix(rp.Codecs, "avc") || strings.HasPrefix(rp.Codecs, "mp4a.40") {
				reps = append(reps, rp)
			}
		}
		if len(reps) == 0 {
			continue
		}
		N := int64(a.Ref.N())
		for mi, md := range modes {
			if !r.Thorough() && w.ref.Gen && mi%2 == (wi+int(r.Seed))%2 {
				continue
			}
			caseNo++
			if !r.Begin(caseNo, fmt.Sprintf("%s %s", w.ref.Path, md.cfg)) {
				continue
			}
			nowMS := a.AvailMS(a.Ref, 3*N+2, 0, 0) + 5
			mu := vfURL(md.cfg, w.ref.Path, w.ref.MPD, nowMS)
			mr := vfGet(w.srv, mu)
			r.Eval(1)
			if mr.Code != 200 {
				sig := fmt.Sprintf("mpd-status-%d:%s", mr.Code, md.cfg)
				if mr.Code == 500 && len(mr.Body) == 0 {
					sig = "mpd-crash:" + md.cfg
				}
				// an MPD that mixes encryptable and non-encryptable video (hevc) codecs may be refused deliberately
				r.Violation(sig, map[string]any{"url": mu, "body": vfTrunc(mr.Body, 120)})
				continue
			}
			m, err := ora.ParseMPD(mr.Body)
			if err != nil {
				continue
			}
			// per AdaptationSet: default_KID and licence URL
			kidOf := map[string]string{} // rep id -> kid hex
			laOf := map[string]string{}
			for _, as := range m.Periods[0].AS {
				kid, la := "", ""
				for _, cp := range as.ContentProtections {
					if cp.SchemeIdUri == "urn:mpeg:dash:mp4protection:2011" {
						kid = ora.KIDToHex(cp.DefaultKID)
						if cp.Value != md.scheme {
							r.Violation("mpd-protection-scheme-value:"+md.cfg, map[string]any{"url": mu, "value": cp.Value, "want": md.scheme})
						}
					}
					if cp.LaURL != "" {
						la = cp.LaURL
					} else if cp.LaURL2 != "" {
						la = cp.LaURL2
					}
				}
				for _, rr := range as.Reps {
					kidOf[rr.ID], laOf[rr.ID] = kid, la
				}
			}
			for _, rp := range reps {
				sigp := md.cfg + ":" + rp.ContentType + ":"
				kid := kidOf[rp.ID]
				if len(kid) != 32 {
					r.Violation(sigp+"mpd-has-no-default_KID", map[string]any{"url": mu, "rep": rp.ID})
					continue
				}
				iu := vfURL(md.cfg, w.ref.Path, rp.InitPath, nowMS)
				ir := vfGet(w.srv, iu)
				r.Eval(1)
				if ir.Code != 200 {
					r.Violation(sigp+fmt.Sprintf("init-status-%d", ir.Code), map[string]any{"url": iu})
					continue
				}
				pi, err := ora.InitProtection(ir.Body)
				if err != nil || !pi.Protected {
					r.Violation(sigp+"served-init-not-protected", map[string]any{"url": iu, "err": fmt.Sprint(err)})
					continue
				}
				if pi.KIDHex != kid {
					r.Violation(sigp+"init-key-id-differs-from-mpd-default_KID", map[string]any{"mpd": mu, "init": iu, "default_KID": kid, "tenc_KID": pi.KIDHex})
					continue
				}
				if pi.Scheme != md.scheme {
					r.Violation(sigp+"init-scheme-differs", map[string]any{"init": iu, "scheme": pi.Scheme})
				}
				r.Class(fmt.Sprintf("%s|%s|%s|kid:mpd=init", w.ref.Path, md.cfg, rp.ContentType))
				// key
				var key []byte
				if md.cpix == nil {
					la := laOf[rp.ID]
					lu, err := url.Parse(la)
					if err != nil || la == "" {
						r.Violation(sigp+"mpd-has-no-licence-url", map[string]any{"url": mu, "laurl": la})
						continue
					}
					kidBytes := make([]byte, 16)
					fmt.Sscanf(kid, "%x", &kidBytes)
					body := fmt.Sprintf(`{"kids":["%s"],"type":"temporary"}`, ora.B64URLNoPad(kidBytes))
					lr := vfDo(w.srv, "POST", lu.Path, strings.NewReader(body), map[string]string{"Content-Type": "application/json"})
					r.Eval(1)
					var resp struct {
						Keys []struct{ Kty, K, Kid string } `json:"keys"`
					}
					if lr.Code != 200 || json.Unmarshal(lr.Body, &resp) != nil || len(resp.Keys) != 1 {
						sig := sigp + fmt.Sprintf("licence-status-%d", lr.Code)
						if lr.Code == 500 && len(lr.Body) == 0 {
							sig = sigp + "licence-crash"
						}
						r.Violation(sig, map[string]any{"url": lu.Path, "request": body, "body": vfTrunc(lr.Body, 100)})
						continue
					}
					kb, err1 := ora.B64URLDecode(resp.Keys[0].K)
					idb, err2 := ora.B64URLDecode(resp.Keys[0].Kid)
					if err1 != nil || err2 != nil || len(kb) != 16 || fmt.Sprintf("%x", idb) != kid {
						r.Violation(sigp+"licence-response-does-not-carry-key-for-requested-id", map[string]any{"url": lu.Path, "response": vfTrunc(lr.Body, 200), "kid": kid})
						continue
					}
					key = kb
					r.Class(fmt.Sprintf("%s|%s|%s|licence", w.ref.Path, md.cfg, rp.ContentType))
				} else {
					ck := md.cpix.KeyFor(rp.ContentType)
					if ck == nil || ck.KIDHex != kid {
						got := ""
						if ck != nil {
							got = ck.KIDHex
						}
						r.Violation(sigp+"mpd-default_KID-differs-from-cpix-key-for-content-type", map[string]any{"url": mu, "default_KID": kid, "cpix_kid": got})
						continue
					}
					key = ck.Key
				}
				// media: whole segments over two loops (+ far wrap), decrypt == clear
				var idx []int64
				for n := int64(0); n <= 2*N+1; n++ {
					idx = append(idx, n)
				}
				idx = append(idx, 1000*N-1, 1000*N, 1000*N+1)
				if r.Thorough() {
					// seeded wraps, and indices whose decode time needs 64 bits (senc/saio offsets move with the tfdt box size)
					rng := r.Rand(int64(10_000 + caseNo))
					far := (int64(uint64(1)<<32/a.Ref.Dur()) + 2) * N
					for k := 0; k < 12; k++ {
						b := (2 + rng.Int63n(3_000_000)) * N
						idx = append(idx, b-1, b, b+1+rng.Int63n(N))
					}
					idx = append(idx, far-1, far, far+1, far+N)
				} else {
					idx = append(idx, (int64(uint64(1)<<32/a.Ref.Dur())+2)*N+1)
				}
				if !r.Thorough() && len(idx) > 9 {
					idx = append(idx[:5], idx[len(idx)-4:]...)
				}
				for _, n := range idx {
					tMS := a.AvailMS(a.Ref, n, 0, 0) + 40
					su := vfMediaURL(rp, uint64(n))
					er := vfGet(w.srv, vfURL(md.cfg, w.ref.Path, su, tMS))
					cr := vfGet(w.srv, vfURL("", w.ref.Path, su, tMS))
					r.Eval(2)
					det := map[string]any{"encrypted": vfURL(md.cfg, w.ref.Path, su, tMS), "clear": vfURL("", w.ref.Path, su, tMS), "init": iu}
					if er.Code != 200 || cr.Code != 200 {
						sig := sigp + fmt.Sprintf("segment-status-%d-clear-%d", er.Code, cr.Code)
						if er.Code == 500 && len(er.Body) == 0 {
							sig = sigp + "segment-crash"
						}
						r.Violation(sig, det)
						break
					}
					dec, err := ora.DecryptSegment(ir.Body, er.Body, key)
					if err != nil {
						det["err"] = err.Error()
						r.Violation(sigp+"served-segment-does-not-decrypt", det)
						break
					}
					clr, err := ora.ParseSegment(cr.Body, rp.Trex)
					if err != nil {
						break
					}
					if ok, why := vfSamplesEqual(dec, clr); !ok {
						det["what"] = why
						r.Violation(sigp+"decrypted-segment-differs-from-clear-segment", det)
						break
					}
					// the ciphertext must actually differ from the clear payload (otherwise nothing was protected)
					if encp, err := ora.ParseSegment(er.Body, rp.Trex); err == nil && len(encp.Samples) == len(clr.Samples) {
						same := true
						for i := range encp.Samples {
							if encp.Samples[i].Hash != clr.Samples[i].Hash {
								same = false
							}
						}
						if same && len(clr.Samples) > 0 {
							r.Violation(sigp+"served-segment-is-not-encrypted", det)
							break
						}
					}
					wb := "first-loops"
					if n >= 1000*N-1 {
						wb = "far-wrap"
					}
					r.Class(fmt.Sprintf("%s|%s|%s|decrypt=clear|whole|k=%d|%s", w.ref.Path, md.cfg, rp.ContentType, n%N, wb))
					if sampled < 3 {
						sampled++
						r.Sample(map[string]any{"encrypted_url": det["encrypted"], "kid": kid, "samples_compared": len(clr.Samples)})
					}
				}
				// chunked delivery: unpaced (after segment end) now, paced (at the advertised availability) collected for parallel run
				_, vs, ve := a.LiveSeg(a.Ref, N+1)
				dMS := int64((ve - vs) * 1000 / a.Ref.Timescale)
				atoMS := dMS / 2
				ccfg := fmt.Sprintf("%s/ato_%d.%03d/chunkdur_0.5", md.cfg, atoMS/1000, atoMS%1000)
				clearCfg := fmt.Sprintf("ato_%d.%03d", atoMS/1000, atoMS%1000)
				chunked := func(n int64, off int64, paced bool) {
					A := a.AvailMS(a.Ref, n, 0, atoMS)
					if rp.ContentType == "audio" {
						A += 25
					}
					tMS := A + off
					su := vfMediaURL(rp, uint64(n))
					rec := httptest.NewRecorder()
					w.srv.Router.ServeHTTP(rec, httptest.NewRequest("GET", vfURL(ccfg, w.ref.Path, su, tMS), nil))
					cr := vfGet(w.srv, vfURL(clearCfg, w.ref.Path, su, A+atoMS+30))
					r.Eval(2)
					det := map[string]any{"encrypted_chunked": vfURL(ccfg, w.ref.Path, su, tMS), "clear": vfURL(clearCfg, w.ref.Path, su, A+atoMS+30), "paced": paced}
					if rec.Code != http.StatusOK || cr.Code != 200 {
						sig := sigp + fmt.Sprintf("chunked-status-%d-clear-%d", rec.Code, cr.Code)
						if rec.Code == 500 && rec.Body.Len() == 0 {
							sig = sigp + "chunked-crash"
						}
						r.Violation(sig, det)
						return
					}
					dec, err := ora.DecryptSegment(ir.Body, rec.Body.Bytes(), key)
					if err != nil {
						det["err"] = err.Error()
						r.Violation(sigp+"served-chunked-segment-does-not-decrypt", det)
						return
					}
					clr, err := ora.ParseSegment(cr.Body, rp.Trex)
					if err != nil {
						return
					}
					if ok, why := vfSamplesEqual(dec, clr); !ok {
						det["what"] = why
						r.Violation(sigp+"decrypted-chunked-segment-differs-from-clear-segment", det)
						return
					}
					r.Class(fmt.Sprintf("%s|%s|%s|decrypt=clear|chunked|paced=%v|chunks=%d", w.ref.Path, md.cfg, rp.ContentType, paced, len(dec.Frags)))
				}
				chunked(N+1, atoMS+30, false)
				if atoMS <= 2100 && (r.Thorough() || (wi+mi)%2 == 0) {
					pacedJobs = append(pacedJobs, func() { chunked(2*N+1, 0, true) })
				}
			}
		}
	}
	// paced chunked requests sleep in the handler: run them in parallel
	t0 := time.Now()
	var wg sync.WaitGroup
	sem := make(chan struct{}, 64)
	for _, j := range pacedJobs {
		wg.Add(1)
		sem <- struct{}{}
		go func(j func()) { defer func() { <-sem; wg.Done() }(); j() }(j)
	}
	wg.Wait()
	r.Add("paced_chunked_requests", int64(len(pacedJobs)))
	r.Add("paced_phase_ms", time.Since(t0).Milliseconds())

	// ---- pre-encrypted asset: a DRM request is refused; without DRM it is served as it is (decrypts with its own key)
	caseNo++
	if r.Begin(caseNo, "pre-encrypted") {
		for _, drm := range []string{"eccp_cenc", "eccp_cbcs", "drm_EZDRM-1-key-cbcs-test", "drm_EZDRM-2-keys-cbcs-test"} {
			for _, tail := range []string{"gen.mpd", "V300/40.m4s", "A48/40.m4s", "V300/init.mp4"} {
				u := vfURL(drm, "gen/preenc", tail, 100_000)
				resp := vfGet(gs, u)
				r.Eval(1)
				if resp.Code < 400 && tail != "V300/init.mp4" {
					r.Violation("pre-encrypted-asset-drm-request-not-refused:"+strings.SplitN(tail, "/", 2)[0], map[string]any{"url": u, "status": resp.Code})
				}
				if resp.Code == 500 && len(resp.Body) == 0 {
					r.Violation("pre-encrypted-asset-drm-request-crash:"+strings.SplitN(tail, "/", 2)[0], map[string]any{"url": u})
				}
				r.Class("preenc|" + drm + "|" + tail)
			}
		}
		for _, rp := range []string{"V300", "A48"} {
			ir := vfGet(gs, vfURL("", "gen/preenc", rp+"/init.mp4", 100_000))
			sr := vfGet(gs, vfURL("", "gen/preenc", rp+"/40.m4s", 100_000))
			cr := vfGet(bs, vfURL("", "testpic_2s", rp+"/40.m4s", 100_000))
			r.Eval(3)
			if ir.Code != 200 || sr.Code != 200 || cr.Code != 200 {
				r.Violation("pre-encrypted-asset-not-served-without-drm", map[string]any{"rep": rp, "init": ir.Code, "segment": sr.Code})
				continue
			}
			dec, err := ora.DecryptSegment(ir.Body, sr.Body, preKey)
			clr, err2 := ora.ParseSegment(cr.Body, nil)
			if err != nil || err2 != nil {
				r.Violation("pre-encrypted-segment-does-not-decrypt-with-its-own-key", map[string]any{"rep": rp, "err": fmt.Sprint(err, err2)})
				continue
			}
			for i := range dec.Samples {
				if i < len(clr.Samples) && (dec.Samples[i].Hash != clr.Samples[i].Hash) {
					r.Violation("pre-encrypted-segment-was-altered", map[string]any{"rep": rp, "sample": i})
					break
				}
			}
			r.Class("preenc|served-as-is|" + rp)
		}
	}
	if r.NViolations() > 0 {
		t.Fail()
	}
}
