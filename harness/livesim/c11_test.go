package app

// C11 (service level) – applying a served MPD patch to the old MPD yields the new MPD.
// Independent RFC 5261 applier (ora.ApplyPatch) + canonical tree comparison.

import (
	"fmt"
	"strings"
	"testing"

	"verif.local/vlib/ora"
	"verif.local/vlib/rep"
)

func TestVerifC11(t *testing.T) {
	r := rep.New("C11")
	r.Rule("case = (asset MPD, cfg{type, patch ttl, tsbd, ato, periods, start}, t1, t2); pairs: one segment added, one removed at the front, both, several at once, across a loop wrap, period added/dropped, nothing changed, beyond ttl; " +
		"class = (asset, cfg tag, pair kind, outcome {applied-equal, 425-unchanged, 410-expired}); counted when the served patch was applied and compared, or the refusal was checked against the two MPDs")
	r.Assume("XML patch semantics: operations applied in document order to the evolving tree; Name[n] = n-th same-name sibling; canonical comparison ignores attribute order and insignificant whitespace")
	r.Assume("410 is demanded only when publishTime(t2) - publishTime(t1) > ttl + 10 s (the server's margin); between ttl and ttl+10 s both 200 and 410 are accepted")
	defer func() { r.Done(); t.Log(r.Summary()) }()
	worlds := vfWorlds(t, false)
	caseNo := 0
	sampled := 0
	for wi, w := range worlds {
		a := w.Asset
		if a.Ref.ContentType != "video" {
			continue
		}
		N := int64(a.Ref.N())
		segMS := a.LoopMS / N
		type cfgT struct {
			url string
			tag string
			ttl int64
			st  int64
			ato int64
		}
		ms := func(x int64) string { return fmt.Sprintf("%d.%03d", x/1000, x%1000) }
		all := []cfgT{
			{"segtimeline_1/patch_60", "time", 60, 0, 0}, {"segtimelinenr_1/patch_60", "tlnr", 60, 0, 0},
			{"segtimeline_1/patch_60/tsbd_7", "time:tsbd7", 60, 0, 0}, {"segtimelinenr_1/patch_5/tsbd_11", "tlnr:ttl5", 5, 0, 0},
			{"segtimeline_1/patch_30/start_1000/tsbd_7", "time:start", 30, 1000, 0},
			{"segtimeline_1/patch_60/ato_" + ms(segMS/2) + "/tsbd_9", "time:ato", 60, 0, segMS / 2},
			{"segtimelinenr_1/patch_60/snr_4/tsbd_7", "tlnr:snr", 60, 0, 0},
			{"segtimeline_1/patch_200/periods_60", "time:periods", 200, 0, 0}, {"segtimelinenr_1/patch_60/periods_120/tsbd_70", "tlnr:periods", 60, 0, 0},
			{"patch_60/periods_60", "number:periods", 60, 0, 0},
			{"segtimeline_1/patch_60/timesubsstpp_en", "time:timesubs", 60, 0, 0},
		}
		cfgs := all
		if !r.Thorough() {
			cfgs = []cfgT{all[(wi+int(r.Seed))%2], all[2+(wi+int(r.Seed))%5], all[7+(wi+int(r.Seed))%4]}
		}
		for _, c := range cfgs {
			if strings.Contains(c.url, "periods_60") && (60*1000)%segMS != 0 {
				continue
			}
			if strings.Contains(c.url, "periods_120") && (30*1000)%segMS != 0 {
				continue
			}
			rng := r.Rand(int64(wi*100 + caseNo))
			base := (10 + rng.Int63n(30)) * N
			type pair struct {
				t1, t2 int64
				kind   string
			}
			var pairs []pair
			A := func(n int64) int64 { return a.AvailMS(a.Ref, n, c.st, c.ato) }
			for k := int64(0); k < int64(r.Pick(int(min(N+1, 5)), int(2*N+2))); k++ {
				n := base + k
				pairs = append(pairs,
					pair{A(n), A(n + 1), "one-segment"}, pair{A(n) + 1, A(n+1) - 1, "nothing-changed"}, pair{A(n) - 1, A(n), "edge-1ms"},
					pair{A(n), A(n+3) + 5, "three-segments"}, pair{A(n) + segMS/3, A(n+N) + segMS/3, "one-loop"},
					pair{A(n), A(n) + c.ttl*1000 - 1, "just-inside-ttl"}, pair{A(n), A(n) + (c.ttl+11)*1000 + 2*segMS, "beyond-ttl"},
					pair{A(n) + rng.Int63n(segMS), A(n+1) + rng.Int63n(3*segMS), "seeded"})
			}
			pairs = append(pairs, pair{c.st*1000 + 1, A(1), "from-stream-start"}, pair{A(0), A(2), "first-segments"})
			if strings.Contains(c.url, "periods") {
				pd := int64(60)
				if strings.Contains(c.url, "periods_120") {
					pd = 30
				}
				b := (base*segMS/1000/pd + 2) * pd * 1000
				pairs = append(pairs, pair{b - 1, b, "period-added"}, pair{b - 1500, b + 1500, "period-added-wide"}, pair{b + 100, b + 2*pd*1000 + 100, "two-periods-added"}, pair{b - 5, b + pd*1000 + 70_000, "periods-added-and-dropped"})
			}
			for _, p := range pairs {
				caseNo++
				if !r.Begin(caseNo, fmt.Sprintf("%s %q t1=%d t2=%d", w.Ref.Path, c.url, p.t1, p.t2)) {
					continue
				}
				if p.t1 < c.st*1000 || p.t2 <= p.t1 {
					continue
				}
				u1 := vfURL(c.url, w.Ref.Path, w.Ref.MPD, p.t1)
				u2 := vfURL(c.url, w.Ref.Path, w.Ref.MPD, p.t2)
				r1, r2 := vfGet(w.Srv, u1), vfGet(w.Srv, u2)
				r.Eval(2)
				if strings.Contains(c.url, "periods_") && r1.Code >= 400 && r2.Code >= 400 && len(r1.Body) > 0 && len(r2.Body) > 0 &&
					strings.Contains(string(r1.Body), "not a multiple of segment duration") {
					// this periods-per-hour value is refused for this asset (judged under C06): nothing to patch
					r.Class(fmt.Sprintf("%s|%s|periods-value-refused", w.Ref.Path, c.tag))
					break
				}
				if r1.Code != 200 || r2.Code != 200 {
					sig := fmt.Sprintf("mpd-status-%d-%d:%s", r1.Code, r2.Code, c.tag)
					if (r1.Code == 500 && len(r1.Body) == 0) || (r2.Code == 500 && len(r2.Body) == 0) {
						sig = "mpd-crash:" + c.tag
					}
					r.Violation(sig, map[string]any{"t1": u1, "t2": u2})
					break
				}
				m1, e1 := ora.ParseMPD(r1.Body)
				m2, e2 := ora.ParseMPD(r2.Body)
				if e1 != nil || e2 != nil {
					break
				}
				if len(m1.Patch) != 1 {
					r.Violation("mpd-has-no-patch-location:"+c.tag, map[string]any{"url": u1})
					break
				}
				loc := strings.TrimSpace(m1.Patch[0].Value)
				pu := loc + fmt.Sprintf("&nowMS=%d", p.t2)
				pr := vfGet(w.Srv, pu)
				r.Eval(1)
				pt1, _ := ora.TimeMS(m1.Publish)
				pt2, _ := ora.TimeMS(m2.Publish)
				det := func(what string) map[string]any {
					return map[string]any{"mpd_t1": u1, "mpd_t2": u2, "patch_request": pu, "publishTime_t1": m1.Publish, "publishTime_t2": m2.Publish, "what": what, "pair": p.kind}
				}
				c1, _ := ora.CanonBytes(r1.Body)
				c2, _ := ora.CanonBytes(r2.Body)
				changed := c1 != c2
				switch {
				case pr.Code == 200:
					if !changed {
						r.Violation("patch-served-although-nothing-changed:"+c.tag, det(""))
						continue
					}
					if pt2-pt1 > (c.ttl+10)*1000 {
						r.Violation("patch-served-beyond-ttl:"+c.tag, det(fmt.Sprintf("ttl %d s", c.ttl)))
						continue
					}
					doc, proot, err := ora.ApplyPatch(r1.Body, pr.Body)
					if err != nil {
						kind := "other"
						switch {
						case strings.Contains(err.Error(), "such children"):
							kind = "index-out-of-range"
						case strings.Contains(err.Error(), "elements match"):
							kind = "predicate-matches-none-or-many"
						case strings.Contains(err.Error(), "missing attribute"):
							kind = "missing-attribute"
						}
						r.Violation("patch-does-not-apply-to-the-mpd-of-t1:"+kind+":"+c.tag, det(err.Error()))
						continue
					}
					if opt := proot.SelectAttrValue("originalPublishTime", ""); opt != m1.Publish {
						r.Violation("patch-originalPublishTime-differs-from-mpd-of-t1:"+c.tag, det("originalPublishTime="+opt))
						continue
					}
					if npt := proot.SelectAttrValue("publishTime", ""); npt != m2.Publish {
						r.Violation("patch-publishTime-differs-from-mpd-of-t2:"+c.tag, det("publishTime="+npt))
					}
					got := ora.Canon(doc.Root())
					if got != c2 {
						r.Violation("patched-mpd-differs-from-mpd-of-t2:"+c.tag, det(ora.FirstDiff(got, c2)))
						continue
					}
					r.Class(fmt.Sprintf("%s|%s|%s|applied-equal", w.Ref.Path+"/"+w.Ref.MPD, c.tag, p.kind))
					if sampled < 3 && p.kind == "three-segments" {
						sampled++
						r.Sample(map[string]any{"patch_request": pu, "operations": len(proot.ChildElements()), "patch": vfTrunc(pr.Body, 700)})
					}
				case pr.Code == 425:
					if changed {
						r.Violation("425-although-the-mpd-changed:"+c.tag, det(ora.FirstDiff(c1, c2)))
						continue
					}
					r.Class(fmt.Sprintf("%s|%s|%s|425-unchanged", w.Ref.Path+"/"+w.Ref.MPD, c.tag, p.kind))
				case pr.Code == 410:
					if pt2-pt1 <= c.ttl*1000 {
						r.Violation("410-although-within-ttl:"+c.tag, det(fmt.Sprintf("publishTime difference %d ms, ttl %d s", pt2-pt1, c.ttl)))
						continue
					}
					r.Class(fmt.Sprintf("%s|%s|%s|410-expired", w.Ref.Path+"/"+w.Ref.MPD, c.tag, p.kind))
				default:
					sig := fmt.Sprintf("patch-status-%d:%s", pr.Code, c.tag)
					if pr.Code == 500 && len(pr.Body) == 0 {
						sig = "patch-crash:" + c.tag
					}
					r.Violation(sig, det(vfTrunc(pr.Body, 100)))
				}
			}
		}
	}
	if r.NViolations() > 0 {
		t.Fail()
	}
}
