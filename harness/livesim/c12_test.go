package app

// C12 – generated time subtitles show the right UTC second at the right media time.
// Oracle: reference video segment from the VoD truth table; cue model per UTC second; stpp TTML and wvtt samples parsed independently.

import (
	"encoding/binary"
	"fmt"
	"regexp"
	"strconv"
	"strings"
	"testing"
	"time"

	"verif.local/vlib/ora"
	"verif.local/vlib/rep"
)

var vfCueRe = regexp.MustCompile(`<p xml:id="([^"]*)" begin="(\d+):(\d\d):(\d\d)\.(\d\d\d)" end="(\d+):(\d\d):(\d\d)\.(\d\d\d)"><span style="s1">([^<]*)<br/>([^<]*)</span></p>`)
var vfRegionRe = regexp.MustCompile(`<div region="r(\d)">`)
var vfLangRe = regexp.MustCompile(`xml:lang="([^"]*)"`)

type vfCue struct {
	begin, end int64 // media ms
	text1      string
	text2      string
}

func vfParseStpp(b []byte) (cues []vfCue, region, lang string, err error) {
	s := string(b)
	for _, m := range vfCueRe.FindAllStringSubmatch(s, -1) {
		tm := func(i int) int64 {
			h, _ := strconv.ParseInt(m[i], 10, 64)
			mi, _ := strconv.ParseInt(m[i+1], 10, 64)
			se, _ := strconv.ParseInt(m[i+2], 10, 64)
			ms, _ := strconv.ParseInt(m[i+3], 10, 64)
			return h*3600000 + mi*60000 + se*1000 + ms
		}
		cues = append(cues, vfCue{tm(2), tm(6), m[10], m[11]})
	}
	if strings.Count(s, "<p ") != len(cues) {
		return nil, "", "", fmt.Errorf("%d <p> elements but %d parsed cues", strings.Count(s, "<p "), len(cues))
	}
	if m := vfRegionRe.FindStringSubmatch(s); m != nil {
		region = m[1]
	}
	if m := vfLangRe.FindStringSubmatch(s); m != nil {
		lang = m[1]
	}
	return
}

// wvtt sample payload: vtte | vttc{[sttg] payl}
func vfParseWvttSample(b []byte) (empty bool, text, settings string, err error) {
	if len(b) < 8 {
		return false, "", "", fmt.Errorf("short sample")
	}
	sz := int(binary.BigEndian.Uint32(b))
	typ := string(b[4:8])
	if sz != len(b) {
		return false, "", "", fmt.Errorf("box size %d != sample size %d", sz, len(b))
	}
	switch typ {
	case "vtte":
		return true, "", "", nil
	case "vttc":
		p := 8
		for p+8 <= len(b) {
			n := int(binary.BigEndian.Uint32(b[p:]))
			t := string(b[p+4 : p+8])
			if n < 8 || p+n > len(b) {
				return false, "", "", fmt.Errorf("bad child box")
			}
			switch t {
			case "payl":
				text = string(b[p+8 : p+n])
			case "sttg":
				settings = string(b[p+8 : p+n])
			}
			p += n
		}
		return false, text, settings, nil
	}
	return false, "", "", fmt.Errorf("unknown box %q", typ)
}

func TestVerifC12(t *testing.T) {
	r := rep.New("C12")
	reask := &vfReask{}
	r.Rule("case = (asset, kind stpp|wvtt, language, cue duration, region, MPD type, start, live index n); class = (asset, kind, mode, start>0, cue-duration class, " +
		"region, start fraction of the segment within its UTC second (100 ms buckets), number of UTC seconds intersected); counted when cues were compared with the model")
	r.Assume("cue model: one cue per UTC second intersecting the segment, begin=max(second,segment start), end=min(second+cueDur or begin+cueDur, segment end, next second) – both readings accepted; an empty cue may be omitted")
	r.Assume("segment start/duration in ms: exact when the video boundary is a whole ms, else +-1 ms")
	defer func() { r.Done(); t.Log(r.Summary()) }()
	worlds := vfWorlds(t, false)
	caseNo := 0
	sampled := 0
	for wi, w := range worlds {
		a := w.Asset
		if a.Ref.ContentType != "video" {
			continue
		}
		type cfgT struct {
			kind, langs, lang string
			cueDur            int
			region            int
			mode              string
			startS            int64
			snr               int
		}
		all := []cfgT{
			{"stpp", "en", "en", -1, -1, "number", 0, -1}, {"wvtt", "en", "en", -1, -1, "number", 0, -1},
			{"stpp", "en,sv", "sv", 900, 1, "time", 0, -1}, {"wvtt", "sv", "sv", 100, 0, "tlnr", 1000, 3},
			{"stpp", "en", "en", 1, 0, "tlnr", 1_700_000_000, -1}, {"wvtt", "en,sv", "en", 999, 1, "time", 1000, -1},
			{"stpp", "en", "en", 1000, 0, "number", 1000, 5}, {"wvtt", "en", "en", 1000, 1, "number", 0, -1},
			{"stpp", "en", "en", 1001, 0, "number", 0, -1}, {"wvtt", "en", "en", 1800, 0, "time", 0, -1},
			{"stpp", "sv", "sv", 2500, 1, "time", 1000, -1}, {"wvtt", "en", "en", 5000, 0, "number", 0, -1},
			{"stpp", "en", "en", 500, -1, "time", 1_700_000_000, -1},
		}
		cfgs := all
		if !r.Thorough() {
			cfgs = nil
			for i := 0; i < 5; i++ {
				cfgs = append(cfgs, all[(i*3+wi+int(r.Seed))%len(all)])
			}
		}
		// cue durations equal to the offset of an early segment start inside its UTC second: the cue of the second before then
		// ends exactly where the segment starts (boundary between "clipped to nothing" and a real cue)
		for k := int64(1); k <= 2; k++ {
			_, st, _ := a.LiveSeg(a.Ref, k)
			if off := int(st * 1000 / a.Ref.Timescale % 1000); off > 0 && st*1000%a.Ref.Timescale == 0 {
				cfgs = append(cfgs, cfgT{"stpp", "en", "en", off, 0, "number", 0, -1}, cfgT{"wvtt", "en", "en", off, -1, "time", 0, -1})
			}
		}
		N := int64(a.Ref.N())
		for _, c := range cfgs {
			var parts []string
			switch c.mode {
			case "time":
				parts = append(parts, "segtimeline_1")
			case "tlnr":
				parts = append(parts, "segtimelinenr_1")
			}
			if c.startS != 0 {
				parts = append(parts, fmt.Sprintf("start_%d", c.startS))
			}
			if c.snr >= 0 {
				parts = append(parts, fmt.Sprintf("snr_%d", c.snr))
			}
			parts = append(parts, "timesubs"+c.kind+"_"+c.langs)
			if c.cueDur >= 0 {
				parts = append(parts, fmt.Sprintf("timesubsdur_%d", c.cueDur))
			}
			if c.region >= 0 {
				parts = append(parts, fmt.Sprintf("timesubsreg_%d", c.region))
			}
			cfgURL := strings.Join(parts, "/")
			cueDur := int64(900)
			if c.cueDur >= 0 {
				cueDur = int64(c.cueDur)
			}
			region := 0
			if c.region >= 0 {
				region = c.region
			}
			snr := int64(0)
			if c.snr >= 0 {
				snr = int64(c.snr)
			}
			var idx []int64
			span := r.Pick(int(2*N+3), 1100)
			for n := int64(0); n < int64(span); n++ {
				idx = append(idx, n)
			}
			for _, f := range []int64{1000 * N, 100003 * N} {
				for n := f - 1; n < f+N+1; n++ {
					idx = append(idx, n)
				}
			}
			if span < 1030 {
				// numbers around powers of two: the first places where a truncating or single-precision conversion of the media time
				// to milliseconds goes wrong for timescales that 1000 does not divide
				for k := uint(6); k <= 10; k++ {
					for j := int64(-1); j <= 2; j++ {
						idx = append(idx, int64(1)<<k+j)
					}
				}
			}
			caseNo++
			if !r.Begin(caseNo, fmt.Sprintf("%s %q", w.Ref.Path, cfgURL)) {
				continue
			}
			durClass := "<=1000"
			if cueDur > 1000 {
				durClass = ">1000"
			}
			for _, n := range idx {
				_, vs, ve := a.LiveSeg(a.Ref, n)
				ts := a.Ref.Timescale
				exact := (vs*1000)%ts == 0 && (ve*1000)%ts == 0
				startMS := int64((vs*1000 + ts/2) / ts) // rounded
				endMS := int64((ve*1000 + ts/2) / ts)
				nowMS := a.AvailMS(a.Ref, n, c.startS, 0)
				repID := "time" + c.kind + "-" + c.lang
				var u string
				if c.mode == "time" {
					if !exact {
						continue
					}
					u = fmt.Sprintf("%s/%d.m4s", repID, startMS)
				} else {
					u = fmt.Sprintf("%s/%d.m4s", repID, snr+n)
				}
				full := vfURL(cfgURL, w.Ref.Path, u, nowMS)
				resp := vfGet(w.Srv, full)
				reask.add(w.Srv, full, resp)
				r.Eval(1)
				sigp := c.kind + ":dur" + durClass + ":"
				det := func(what string) map[string]any {
					return map[string]any{"url": full, "n": n, "video_segment_ms": fmt.Sprintf("[%d,%d)", startMS, endMS), "what": what}
				}
				if resp.Code != 200 {
					sig := sigp + fmt.Sprintf("status-%d", resp.Code)
					if resp.Code == 500 && len(resp.Body) == 0 {
						sig = sigp + "crash"
					}
					r.Violation(sig, det(vfTrunc(resp.Body, 100)))
					continue
				}
				ps, err := ora.ParseSegment(resp.Body, nil)
				if err != nil {
					r.Violation(sigp+"unparseable", det(err.Error()))
					continue
				}
				tol := int64(0)
				if !exact {
					tol = 1
				}
				if int64(ps.Seq) != snr+n {
					r.Violation(sigp+"sequence-number", det(fmt.Sprintf("seq=%d want %d", ps.Seq, snr+n)))
				}
				if d := int64(ps.Tfdt) - startMS; d < -tol || d > tol {
					r.Violation(sigp+"decode-time", det(fmt.Sprintf("tfdt=%d", ps.Tfdt)))
					continue
				}
				segDur := endMS - startMS
				if d := int64(ps.TotalDur) - segDur; d < -tol || d > tol {
					r.Violation(sigp+"segment-duration", det(fmt.Sprintf("duration=%d want %d", ps.TotalDur, segDur)))
					continue
				}
				S := int64(ps.Tfdt)
				E := S + int64(ps.TotalDur)
				U := c.startS*1000 + S // UTC ms of segment start
				// observed cues
				var cues []vfCue
				switch c.kind {
				case "stpp":
					if len(ps.Data) != 1 {
						r.Violation(sigp+"stpp-sample-count", det(fmt.Sprint(len(ps.Data))))
						continue
					}
					cs, reg, lang, err := vfParseStpp(ps.Data[0])
					if err != nil {
						r.Violation(sigp+"stpp-ttml-unparseable", det(err.Error()))
						continue
					}
					cues = cs
					if reg != strconv.Itoa(region) {
						r.Violation(sigp+"region", det("region "+reg))
					}
					if lang != c.lang {
						r.Violation(sigp+"ttml-language", det("xml:lang "+lang))
					}
				case "wvtt":
					pos := S
					bad := false
					for i, smp := range ps.Samples {
						empty, text, settings, err := vfParseWvttSample(ps.Data[i])
						if err != nil {
							r.Violation(sigp+"wvtt-sample-unparseable", det(err.Error()))
							bad = true
							break
						}
						if smp.Dur == 0 || smp.Dur > 1<<31 {
							r.Violation(sigp+"wvtt-sample-duration-zero-or-negative", det(fmt.Sprintf("sample %d dur=%d", i, smp.Dur)))
							bad = true
							break
						}
						if !empty {
							l1, l2, _ := strings.Cut(text, "\n")
							cues = append(cues, vfCue{pos, pos + int64(smp.Dur), l1, l2})
							if (settings == "line:2") != (region == 1) {
								r.Violation(sigp+"region", det("settings "+settings))
							}
						}
						pos += int64(smp.Dur)
					}
					if bad {
						continue
					}
					if pos != E {
						r.Violation(sigp+"wvtt-samples-do-not-tile-segment", det(fmt.Sprintf("samples end at %d, segment at %d", pos, E)))
						continue
					}
				}
				// generic cue sanity
				ok := true
				for i, cu := range cues {
					if cu.begin >= cu.end {
						r.Violation(sigp+"cue-end-not-after-begin", det(fmt.Sprintf("cue %d [%d,%d)", i, cu.begin, cu.end)))
						ok = false
						break
					}
					if cu.begin < S || cu.end > E {
						r.Violation(sigp+"cue-outside-segment", det(fmt.Sprintf("cue %d [%d,%d) segment [%d,%d)", i, cu.begin, cu.end, S, E)))
						ok = false
						break
					}
					if i > 0 && cu.begin < cues[i-1].end {
						r.Violation(sigp+"cues-overlap-or-unordered", det(fmt.Sprintf("cue %d begins %d before previous end %d", i, cu.begin, cues[i-1].end)))
						ok = false
						break
					}
				}
				if !ok {
					continue
				}
				// livesim2's documented design for cue durations above 1 s (pinned by its own test "long cue"): one cue every
				// F=ceil(cueDur/1000) seconds at UTC seconds that are multiples of F, showing that second. It differs from the
				// property (one cue per UTC second). If the output is exactly that design, it is reported under one signature.
				if cueDur > 1000 {
					F := (cueDur + 999) / 1000
					var want []vfCue
					for s := U / 1000 / F * F; s*1000 < U+(E-S); s += F {
						b, e := s*1000, s*1000+cueDur
						if b < U {
							b = U
						}
						if e > U+(E-S) {
							e = U + (E - S)
						}
						if e > b {
							want = append(want, vfCue{b - c.startS*1000, e - c.startS*1000, time.Unix(s, 0).UTC().Format(time.RFC3339), fmt.Sprintf("%s # %d", c.lang, snr+n)})
						}
					}
					if fmt.Sprint(want) == fmt.Sprint(cues) {
						// does it also satisfy the property? (possible when every stride cue coincides with the per-second model)
						sat := true
						k := 0
						for s := U / 1000; s*1000 < U+(E-S); s++ {
							b := s * 1000
							if b < U {
								b = U
							}
							lim := (s + 1) * 1000
							if U+(E-S) < lim {
								lim = U + (E - S)
							}
							if k < len(cues) && cues[k].begin == b-c.startS*1000 && cues[k].end <= lim-c.startS*1000 && cues[k].text1 == time.Unix(s, 0).UTC().Format(time.RFC3339) {
								k++
							} else if s*1000+cueDur > b {
								sat = false
							}
						}
						if !sat || k != len(cues) {
							r.Violation("dur>1000:cues-follow-multi-second-stride-not-every-utc-second", det(fmt.Sprintf("cues %v", cues)))
							r.Class(fmt.Sprintf("%s|%s|%s|start>0=%v|dur%s|stride-design", w.Ref.Path, c.kind, c.mode, c.startS != 0, durClass))
							continue
						}
					}
				}
				// model: per UTC second
				ci := 0
				nSec := 0
				for s := U / 1000; s*1000 < U+(E-S); s++ {
					nSec++
					b := s * 1000
					if b < U {
						b = U
					}
					lim := (s + 1) * 1000
					if U+(E-S) < lim {
						lim = U + (E - S)
					}
					e1 := s*1000 + cueDur
					if e1 > lim {
						e1 = lim
					}
					e2 := b + cueDur
					if e2 > lim {
						e2 = lim
					}
					wantText := time.Unix(s, 0).UTC().Format(time.RFC3339)
					want2 := fmt.Sprintf("%s # %d", c.lang, snr+n)
					mb := b - c.startS*1000 // media time
					if ci < len(cues) && cues[ci].begin == mb {
						cu := cues[ci]
						ci++
						me1, me2 := e1-c.startS*1000, e2-c.startS*1000
						if cu.end != me1 && cu.end != me2 {
							r.Violation(sigp+"cue-end-wrong", det(fmt.Sprintf("second %d: cue [%d,%d) want end %d or %d", s, cu.begin, cu.end, me1, me2)))
							ok = false
							break
						}
						if cu.text1 != wantText || cu.text2 != want2 {
							r.Violation(sigp+"cue-text-wrong", det(fmt.Sprintf("second %d: %q / %q want %q / %q", s, cu.text1, cu.text2, wantText, want2)))
							ok = false
							break
						}
					} else if e1 <= b {
						// empty by reading 1: omission accepted
					} else {
						got := "none"
						if ci < len(cues) {
							got = fmt.Sprintf("[%d,%d) %q", cues[ci].begin, cues[ci].end, cues[ci].text1)
						}
						r.Violation(sigp+"missing-cue-for-utc-second", det(fmt.Sprintf("second %d (%s) should begin at media %d; next cue: %s", s, wantText, mb, got)))
						ok = false
						break
					}
				}
				if ok && ci != len(cues) {
					r.Violation(sigp+"extra-cue", det(fmt.Sprintf("%d cues, %d matched", len(cues), ci)))
					ok = false
				}
				r.Class(fmt.Sprintf("%s|%s|%s|start>0=%v|dur%s|reg=%d|frac=%d|secs=%d", w.Ref.Path, c.kind, c.mode, c.startS != 0, durClass, region, (U%1000)/100, nSec))
				if sampled < 3 && ok && n > 2 && len(cues) > 0 {
					sampled++
					r.Sample(map[string]any{"url": full, "segment_ms": fmt.Sprintf("[%d,%d)", S, E), "cues": fmt.Sprint(cues)})
				}
			}
			// MPD: the subtitle AdaptationSet mirrors the video timeline in ms
			if c.mode == "number" {
				nowMS := a.AvailMS(a.Ref, 40*N+1, c.startS, 0) + 1
				mu := vfURL(cfgURL, w.Ref.Path, w.Ref.MPD, nowMS)
				mr := vfGet(w.Srv, mu)
				r.Eval(1)
				if mr.Code != 200 {
					r.Violation(c.kind+fmt.Sprintf(":mpd-status-%d", mr.Code), map[string]any{"url": mu, "body": vfTrunc(mr.Body, 100)})
					continue
				}
				if m, err := ora.ParseMPD(mr.Body); err == nil && len(m.Periods) == 1 {
					var vst, sst *ora.MTemplate
					for ai := range m.Periods[0].AS {
						as := &m.Periods[0].AS[ai]
						for _, rr := range as.Reps {
							if rr.ID == a.Ref.ID {
								vst = as.ST
							}
							if rr.ID == "time"+c.kind+"-"+c.lang {
								sst = as.ST
							}
						}
					}
					if vst == nil || sst == nil || vst.Duration == nil || sst.Duration == nil {
						r.Violation(c.kind+":mpd-number-template-missing", map[string]any{"url": mu})
					} else {
						num := *vst.Duration * 1000
						wantLo, wantHi := num/vst.TS(), (num+vst.TS()-1)/vst.TS()
						sn := func(t *ora.MTemplate) int64 {
							if t.StartNumber == nil {
								return 1
							}
							return int64(*t.StartNumber)
						}
						if sst.TS() != 1000 || *sst.Duration < wantLo || *sst.Duration > wantHi || sn(sst) != sn(vst) {
							r.Violation(c.kind+":mpd-subtitle-template-differs-from-video", map[string]any{"url": mu, "video": fmt.Sprintf("duration=%d timescale=%d startNumber=%d", *vst.Duration, vst.TS(), sn(vst)), "subs": fmt.Sprintf("duration=%d timescale=%d startNumber=%d", *sst.Duration, sst.TS(), sn(sst))})
						}
						r.Class(fmt.Sprintf("%s|%s|mpd-mirror|number", w.Ref.Path, c.kind))
					}
				}
			}
			if c.mode != "number" {
				nowMS := a.AvailMS(a.Ref, 40*N+1, c.startS, 0) + 1
				mu := vfURL(cfgURL, w.Ref.Path, w.Ref.MPD, nowMS)
				mr := vfGet(w.Srv, mu)
				r.Eval(1)
				if mr.Code != 200 {
					sig := fmt.Sprintf("mpd-status-%d", mr.Code)
					if len(mr.Body) == 0 {
						sig = "mpd-crash"
					}
					r.Violation(c.kind+":"+sig, map[string]any{"url": mu, "body": vfTrunc(mr.Body, 100)})
					continue
				}
				m, err := ora.ParseMPD(mr.Body)
				if err != nil {
					continue
				}
				var vd, sd []ora.Decl
				for _, d := range m.TimelineDecls() {
					if d.Rep == a.Ref.ID {
						vd = append(vd, d)
					}
					if d.Rep == "time"+c.kind+"-"+c.lang {
						sd = append(sd, d)
					}
				}
				if len(vd) != len(sd) || len(sd) == 0 {
					r.Violation(c.kind+":mpd-subtitle-timeline-length", map[string]any{"url": mu, "video": len(vd), "subs": len(sd)})
					continue
				}
				for i := range vd {
					vt := int64((vd[i].T*1000 + vd[i].TS/2) / vd[i].TS)
					ve := int64(((vd[i].T+vd[i].D)*1000 + vd[i].TS/2) / vd[i].TS)
					st, se := int64(sd[i].T), int64(sd[i].T+sd[i].D)
					exact := (vd[i].T*1000)%vd[i].TS == 0 && (vd[i].D*1000)%vd[i].TS == 0
					tol := int64(1)
					if exact {
						tol = 0
					}
					if sd[i].TS != 1000 || st-vt > tol || vt-st > tol || se-ve > tol || ve-se > tol || sd[i].Nr != vd[i].Nr {
						r.Violation(c.kind+":mpd-subtitle-timeline-differs-from-video", map[string]any{"url": mu, "entry": i, "video": fmt.Sprintf("t=%d d=%d ts=%d nr=%d", vd[i].T, vd[i].D, vd[i].TS, vd[i].Nr), "subs": fmt.Sprintf("t=%d d=%d ts=%d nr=%d", sd[i].T, sd[i].D, sd[i].TS, sd[i].Nr)})
						break
					}
				}
				r.Class(fmt.Sprintf("%s|%s|mpd-mirror|%s", w.Ref.Path, c.kind, c.mode))
			}
		}
	}
	vfReaskAtOnce(r, reask, "generated-subtitle-segments")
	if r.NViolations() > 0 {
		t.Fail()
	}
}
