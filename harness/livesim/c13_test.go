package app

// C13 – SCTE-35 events follow the per-minute schedule, each announced exactly once.
// Offline checker over the recorded emsg log of consecutive video segments; independent splice_info_section reader and CRC.

import (
	"fmt"
	"math/big"
	"strings"
	"testing"

	"verif.local/vlib/ora"
	"verif.local/vlib/rep"
)

type vfEmsgObs struct {
	n          int64
	start, end uint64 // media ticks of carrying segment
	e          ora.Emsg
}

func TestVerifC13(t *testing.T) {
	r := rep.New("C13")
	reask := &vfReask{}
	r.Rule("case = (asset, events per minute N, MPD type/start, stretch of consecutive video segments); the event log of a stretch is checked offline: every scheduled (minute, offset) whose announce instant " +
		"(splice - 7 s) lies inside the stretch is carried by exactly one segment, whose interval contains that instant; class = (asset, N, stretch kind, minute offset, position of the announce instant in the carrying segment {start,inside,end}); counted per scheduled event judged")
	r.Assume("minutes and offsets are counted on the media timeline (relative to availabilityStartTime), which is wall-clock aligned for the driven start times (multiples of 60 s) and also driven for one unaligned start")
	r.Assume("segments longer than 10 s are outside the stated range (a segment could contain two announce instants)")
	defer func() { r.Done(); t.Log(r.Summary()) }()
	worlds := vfWorlds(t, false)
	caseNo := 0
	sampled := 0
	for wi, w := range worlds {
		a := w.Asset
		if a.Ref.ContentType != "video" {
			continue
		}
		vr := a.Ref
		ts := vr.Timescale
		N0 := int64(vr.N())
		for N := 1; N <= 3; N++ {
			if !r.Thorough() && (wi+N+int(r.Seed))%3 != 0 && !(N == 1 && wi%5 == 0) {
				continue
			}
			offsets := map[int][]uint64{1: {10}, 2: {10, 40}, 3: {10, 36, 46}}[N]
			durS := uint64(10)
			if N == 1 {
				durS = 20
			}
			type stretch struct {
				name      string
				cfg       string
				startS    int64
				fromS, nS int64 // media seconds
			}
			minutes := int64(r.Pick(12, 180))
			sts := []stretch{
				{"from-start", "", 0, 0, minutes * 60},
				{"pts-wrap-1", "segtimeline_1", 0, 95443 - 600, 1200},
				{"pts-wrap-3", "segtimelinenr_1/start_600", 600, 3*95443 - 300, 600},
				{"far", "start_1699999980", 1_699_999_980, 7 * 86400, int64(r.Pick(300, 2400))},
				{"unaligned-start", "start_1000", 1000, 3000, 300},
			}
			if !r.Thorough() {
				sts = []stretch{sts[0], sts[1+(wi+N)%4]}
			}
			for _, st := range sts {
				cfg := fmt.Sprintf("scte35_%d", N)
				if st.cfg != "" {
					cfg = st.cfg + "/" + cfg
				}
				caseNo++
				if !r.Begin(caseNo, fmt.Sprintf("%s %q stretch %s", w.Ref.Path, cfg, st.name)) {
					continue
				}
				// first index whose start >= fromS
				loopS := a.LoopMS
				n0 := (st.fromS * 1000 / loopS) * N0
				var log []vfEmsgObs
				var segs [][2]uint64
				ok := true
				var firstStart, lastEnd uint64
				for n := n0; ; n++ {
					_, s, e := a.LiveSeg(vr, n)
					if int64(s/ts) >= st.fromS+st.nS {
						break
					}
					nowMS := a.AvailMS(vr, n, st.startS, 0)
					var u string
					if strings.Contains(cfg, "segtimeline_1") {
						u = vfMediaURL(vr, s)
					} else {
						u = vfMediaURL(vr, uint64(n))
					}
					full := vfURL(cfg, w.Ref.Path, u, nowMS)
					resp := vfGet(w.Srv, full)
					reask.add(w.Srv, full, resp)
					r.Eval(1)
					if resp.Code != 200 {
						r.Violation(fmt.Sprintf("video-segment-status-%d", resp.Code), map[string]any{"url": full, "body": vfTrunc(resp.Body, 100)})
						ok = false
						break
					}
					ps, err := ora.ParseSegment(resp.Body, vr.Trex)
					if err != nil {
						r.Violation("video-segment-unparseable", map[string]any{"url": full, "err": err.Error()})
						ok = false
						break
					}
					if len(segs) == 0 {
						firstStart = s
					}
					lastEnd = e
					segs = append(segs, [2]uint64{s, e})
					for _, em := range ps.Emsgs {
						log = append(log, vfEmsgObs{n, s, e, em})
					}
					if len(ps.Emsgs) > 1 {
						r.Violation("more-than-one-emsg-in-a-segment", map[string]any{"url": full, "emsgs": len(ps.Emsgs)})
					}
					// other representations carry no event (sampled)
					if n%17 == 0 {
						for _, rid := range a.RepIDs {
							or := a.Reps[rid]
							if or == vr || or.ContentType == "image" || or.ContentType == "video" {
								continue
							}
							var ou string
							if strings.Contains(cfg, "segtimeline_1") {
								if or.ContentType == "audio" {
									as, _ := a.AudioSegTimes(or, n)
									ou = vfMediaURL(or, as)
								} else {
									_, os, _ := a.LiveSeg(or, n)
									ou = vfMediaURL(or, os)
								}
							} else {
								ou = vfMediaURL(or, uint64(n))
							}
							orr := vfGet(w.Srv, vfURL(cfg, w.Ref.Path, ou, nowMS))
							r.Eval(1)
							if orr.Code == 200 {
								if ops, err := ora.ParseSegment(orr.Body, or.Trex); err == nil && len(ops.Emsgs) > 0 {
									r.Violation("emsg-in-non-video-representation:"+or.ContentType, map[string]any{"url": vfURL(cfg, w.Ref.Path, ou, nowMS)})
								}
							}
						}
					}
				}
				if !ok || len(segs) == 0 {
					continue
				}
				// ---- offline check of the log
				used := make([]bool, len(log))
				m0 := firstStart / ts / 60
				for m := m0; m*60*ts < lastEnd+60*ts; m++ {
					for _, o := range offsets {
						splice := (m*60 + o) * ts
						if splice < 7*ts {
							continue
						}
						ann := splice - 7*ts
						if ann <= firstStart || ann >= lastEnd { // edges of the stretch: the carrying segment may be outside
							continue
						}
						// carriers
						var carriers []int
						for i, ob := range log {
							if ob.e.Scheme == "urn:scte:scte35:2013:bin" && new(big.Int).Mul(new(big.Int).SetUint64(ob.e.PresentationTime), new(big.Int).SetUint64(ts)).Cmp(
								new(big.Int).Mul(new(big.Int).SetUint64(splice), new(big.Int).SetUint64(uint64(ob.e.Timescale)))) == 0 {
								carriers = append(carriers, i)
							}
						}
						det := func(what string) map[string]any {
							return map[string]any{"asset": w.Ref.Path, "cfg": cfg, "minute": m, "offset_s": o, "splice_media_s": m*60 + o, "announce_media_ticks": ann, "timescale": ts, "what": what}
						}
						sigp := fmt.Sprintf("N=%d:", N)
						if len(carriers) == 0 {
							// which segment should have carried it
							for _, sg := range segs {
								if sg[0] <= ann && ann <= sg[1] {
									det("")["segment"] = fmt.Sprint(sg)
								}
							}
							pos := "inside"
							for _, sg := range segs {
								if ann == sg[1] || ann == sg[0] {
									pos = "on-boundary"
								}
							}
							crossesMinute := false
							for _, sg := range segs {
								if sg[0] <= ann && ann <= sg[1] && sg[0]/ts/60 != splice/ts/60 {
									crossesMinute = true
								}
							}
							sig := sigp + "scheduled-event-not-announced:" + pos
							if crossesMinute {
								sig = sigp + "scheduled-event-not-announced:carrying-segment-starts-in-previous-minute"
							}
							r.Violation(sig, det("no segment of the stretch carries this event"))
							continue
						}
						if len(carriers) > 1 {
							r.Violation(sigp+"event-announced-more-than-once", det(fmt.Sprintf("carried by segments n=%d and n=%d", log[carriers[0]].n, log[carriers[1]].n)))
						}
						ob := log[carriers[0]]
						for _, c := range carriers {
							used[c] = true
						}
						if !(ob.start <= ann && ann <= ob.end) {
							r.Violation(sigp+"event-carried-by-segment-not-containing-announce-instant", det(fmt.Sprintf("carrier n=%d [%d,%d]", ob.n, ob.start, ob.end)))
						}
						pos := "inside"
						if ann == ob.start {
							pos = "start"
						} else if ann == ob.end {
							pos = "end"
						}
						// consistency of the event
						e := ob.e
						wantID := uint32(m*60 + o)
						if e.ID != wantID || uint64(e.Duration) != durS*uint64(e.Timescale) || e.Value != "" {
							r.Violation(sigp+"emsg-fields-inconsistent", det(fmt.Sprintf("id=%d want %d, event_duration=%d want %d, value=%q", e.ID, wantID, e.Duration, durS*uint64(e.Timescale), e.Value)))
						}
						si, err := ora.ParseSpliceInfo(e.Data)
						if err != nil {
							r.Violation(sigp+"splice-info-section-malformed", det(err.Error()))
							continue
						}
						wantPTS := ((m*60 + o) * 90000) % (1 << 33)
						switch {
						case si.TableID != 0xFC || si.Protocol != 0 || si.Encrypted:
							r.Violation(sigp+"splice-info-header", det(fmt.Sprintf("%+v", *si)))
						case !si.CRCValid:
							r.Violation(sigp+"splice-info-crc-invalid", det(fmt.Sprintf("crc=%08x computed=%08x", si.CRC, ora.CRC32MPEG2(e.Data[:len(e.Data)-4]))))
						case si.EventID != wantID:
							r.Violation(sigp+"splice-event-id-differs-from-emsg-id", det(fmt.Sprintf("%d vs %d", si.EventID, wantID)))
						case !si.TimeSpecified || si.PtsTime != wantPTS:
							r.Violation(sigp+"pts-time-wrong", det(fmt.Sprintf("pts_time=%d want %d (= splice*90000 mod 2^33)", si.PtsTime, wantPTS)))
						case !si.DurationFlag || si.BreakDuration != durS*90000 || !si.AutoReturn:
							r.Violation(sigp+"break-duration-wrong", det(fmt.Sprintf("duration_flag=%v break_duration=%d auto_return=%v", si.DurationFlag, si.BreakDuration, si.AutoReturn)))
						case si.Cancel || !si.OutOfNetwork || !si.ProgramSplice || si.Immediate:
							r.Violation(sigp+"splice-insert-flags", det(fmt.Sprintf("%+v", *si)))
						}
						wrapped := (m*60+o)*90000 >= 1<<33
						r.Class(fmt.Sprintf("%s|N=%d|%s|off=%d|ann@%s|pts-wrapped=%v", w.Ref.Path, N, st.name, o, pos, wrapped))
						if sampled < 3 {
							sampled++
							r.Sample(map[string]any{"asset": w.Ref.Path, "cfg": cfg, "carrier_n": ob.n, "carrier_interval": fmt.Sprintf("[%d,%d]/%d", ob.start, ob.end, ts), "emsg_id": e.ID, "presentation_time": e.PresentationTime, "pts_time": si.PtsTime, "crc_valid": si.CRCValid})
						}
					}
				}
				for i, ob := range log {
					if !used[i] {
						// events whose announce instant is at the edge of the stretch are legitimately unmatched; others are extra
						splice := new(big.Rat).SetFrac(new(big.Int).SetUint64(ob.e.PresentationTime), new(big.Int).SetUint64(uint64(ob.e.Timescale)))
						annR := new(big.Rat).Sub(splice, big.NewRat(7, 1))
						lo := new(big.Rat).SetFrac(new(big.Int).SetUint64(firstStart), new(big.Int).SetUint64(ts))
						hi := new(big.Rat).SetFrac(new(big.Int).SetUint64(lastEnd), new(big.Int).SetUint64(ts))
						if annR.Cmp(lo) > 0 && annR.Cmp(hi) < 0 {
							r.Violation(fmt.Sprintf("N=%d:unscheduled-event", N), map[string]any{"asset": w.Ref.Path, "cfg": cfg, "segment_n": ob.n, "presentation_time": ob.e.PresentationTime, "timescale": ob.e.Timescale, "id": ob.e.ID})
						}
					}
				}
				// MPD announces the in-band event stream on the video AdaptationSet only
				mu := vfURL(cfg, w.Ref.Path, w.Ref.MPD, a.AvailMS(vr, n0+3, st.startS, 0))
				mr := vfGet(w.Srv, mu)
				r.Eval(1)
				if mr.Code == 200 {
					if m, err := ora.ParseMPD(mr.Body); err == nil {
						for _, p := range m.Periods {
							for _, as := range p.AS {
								has := false
								for _, ie := range as.InbandEventStreams {
									if ie.SchemeIdUri == "urn:scte:scte35:2013:bin" {
										has = true
									}
								}
								isVideo := false
								for _, rr := range as.Reps {
									if a.Reps[rr.ID] != nil && a.Reps[rr.ID].ContentType == "video" {
										isVideo = true
									}
								}
								if has != isVideo {
									r.Violation("mpd-inband-event-stream-signalling", map[string]any{"url": mu, "video": isVideo, "signalled": has})
								}
							}
						}
						r.Class(fmt.Sprintf("%s|N=%d|mpd-signalling", w.Ref.Path, N))
					}
				} else {
					r.Violation(fmt.Sprintf("mpd-status-%d", mr.Code), map[string]any{"url": mu})
				}
			}
		}
		// other N rejected
		caseNo++
		if r.Begin(caseNo, "reject "+w.Ref.Path) {
			for _, k := range []string{"0", "4", "-1", "60", "x"} {
				for _, tail := range []string{w.Ref.MPD, vfMediaURL(a.Ref, 10)} {
					u := vfURL("scte35_"+k, w.Ref.Path, tail, 100000)
					resp := vfGet(w.Srv, u)
					r.Eval(1)
					if resp.Code < 400 || resp.Code >= 500 || len(resp.Body) == 0 {
						r.Violation("invalid-events-per-minute-not-rejected-with-4xx", map[string]any{"url": u, "status": resp.Code, "body": vfTrunc(resp.Body, 80)})
					}
					r.Class("reject|" + k)
				}
			}
		}
	}
	vfReaskAtOnce(r, reask, "segments-with-events")
	if r.NViolations() > 0 {
		t.Fail()
	}
}
