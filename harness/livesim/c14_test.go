package app

// C14 – fault-injection parameters hit exactly the scheduled requests.
// Independent schedule models: (a) status-code patterns: segment n of rep is hit iff rep matches and n is the rsq-th of the
// segments whose reference start lies in its cycle; (b) traffic patterns: state of BaseURL b at second s.

import (
	"fmt"
	"strconv"
	"strings"
	"sync"
	"testing"
	"time"

	"verif.local/vlib/ora"
	"verif.local/vlib/rep"
)

type vfPat struct {
	cycle, rsq, code int
	rep              string // "" = all
}

func vfPatURL(ps []vfPat) string {
	var parts []string
	for _, p := range ps {
		s := fmt.Sprintf("{cycle:%d,rsq:%d,code:%d", p.cycle, p.rsq, p.code)
		if p.rep != "" {
			s += ",rep:" + p.rep
		}
		parts = append(parts, s+"}")
	}
	return "statuscode_[" + strings.Join(parts, ",") + "]"
}

func TestVerifC14(t *testing.T) {
	r := rep.New("C14")
	reask := &vfReask{}
	r.Rule("status codes: case = (asset, pattern set, cfg{mode,start,snr}, representation, consecutive live indices over >= 6 cycles); class = (asset, cycle, segments-per-cycle shape, rep kind, mode, start>0, snr>0, " +
		"expected hit/normal); traffic: case = (pattern list, BaseURL, second); class = (pattern shape, state); counted per compared response")
	r.Assume("a representation matches a pattern when the pattern has no rep filter or the filter is a substring of the representation id (the documented matching)")
	r.Assume("audio in the <= 1-frame window where video and audio starts fall into different cycles follows the reference video segment (weakest reading)")
	r.Assume("slow/hang are judged one-sidedly: slow => 200 after >= 2 s, hang => 503 after >= 10 s; an 'up' answer must be 200 (no timing demand)")
	defer func() { r.Done(); t.Log(r.Summary()) }()
	worlds := vfWorlds(t, false)
	caseNo := 0
	sampled := 0
	for wi, w := range worlds {
		a := w.Asset
		if a.Ref.ContentType != "video" {
			continue
		}
		vr := a.Ref
		N := int64(vr.N())
		sets := [][]vfPat{
			{{30, 0, 404, ""}}, {{7, 1, 410, ""}}, {{10, 2, 503, vr.ID}}, {{4, 0, 404, ""}, {45, 3, 503, ""}},
			{{45, 1, 404, "nomatch"}, {10, 0, 410, ""}}, {{60, 12, 503, ""}, {10, 0, 404, ""}}, {{13, 0, 404, ""}},
		}
		type cfgT struct {
			mode   string
			startS int64
			snr    int
		}
		cfgs := []cfgT{{"number", 0, -1}, {"time", 0, -1}, {"tlnr", 0, -1}, {"number", 1000, -1}, {"number", 0, 3}, {"time", 1000, 3}, {"tlnr", 1_700_000_000, 0}}
		for si, set := range sets {
			for ci, c := range cfgs {
				if !r.Thorough() && (si+ci+wi+int(r.Seed))%5 != 0 {
					continue
				}
				var parts []string
				switch c.mode {
				case "time":
					parts = append(parts, "segtimeline_1")
				case "tlnr":
					parts = append(parts, "segtimelinenr_1")
				}
				if c.startS != 0 {
					parts = append(parts, fmt.Sprintf("start_%d", c.startS))
				}
				snr := int64(0)
				if c.snr >= 0 {
					parts = append(parts, fmt.Sprintf("snr_%d", c.snr))
					snr = int64(c.snr)
				}
				parts = append(parts, vfPatURL(set))
				cfgURL := strings.Join(parts, "/")
				maxCycle := 0
				for _, p := range set {
					if p.cycle > maxCycle {
						maxCycle = p.cycle
					}
				}
				nEnd := int64(6*maxCycle*1000)/(a.LoopMS/N) + 2
				if !r.Thorough() && nEnd > 150 {
					nEnd = 150
				}
				caseNo++
				if !r.Begin(caseNo, fmt.Sprintf("%s %q", w.Ref.Path, cfgURL)) {
					continue
				}
				// first index of every cycle, per pattern cycle length: firstN(c) = min{k: start(k) >= c*cycle}
				firstIn := func(cycle int, cyc uint64) int64 {
					target := cyc * uint64(cycle) * vr.Timescale
					loop, _ := a.LoopTicks(vr)
					k := int64(target/loop) * N
					for k > 0 {
						_, s, _ := a.LiveSeg(vr, k-1)
						if s < target {
							break
						}
						k--
					}
					for {
						_, s, _ := a.LiveSeg(vr, k)
						if s >= target {
							return k
						}
						k++
					}
				}
				for _, rid := range a.RepIDs {
					rp := a.Reps[rid]
					if rp.ContentType == "image" {
						continue
					}
					if lt, ok := a.LoopTicks(rp); rp.ContentType != "audio" && (!ok || lt != rp.Dur()) {
						continue
					}
					for n := int64(0); n < nEnd; n++ {
						_, vs, _ := a.LiveSeg(vr, n)
						want := 0
						for _, p := range set {
							if p.rep != "" && !strings.Contains(rid, p.rep) {
								continue
							}
							cyc := vs / (uint64(p.cycle) * vr.Timescale)
							if n-firstIn(p.cycle, cyc) == int64(p.rsq) {
								want = p.code
								break
							}
						}
						nowMS := a.AvailMS(vr, n, c.startS, 0)
						var u string
						if c.mode == "time" {
							if rp.ContentType == "audio" {
								as, _ := a.AudioSegTimes(rp, n)
								u = vfMediaURL(rp, as)
								nowMS += 30 // audio may end up to one frame later
							} else {
								_, s, _ := a.LiveSeg(rp, n)
								u = vfMediaURL(rp, s)
							}
						} else {
							u = vfMediaURL(rp, uint64(snr+n))
							if rp.ContentType == "audio" {
								nowMS += 30
							}
						}
						full := vfURL(cfgURL, w.Ref.Path, u, nowMS)
						resp := vfGet(w.Srv, full)
						reask.add(w.Srv, full, resp)
						r.Eval(1)
						exp := 200
						if want != 0 {
							exp = want
						}
						tag := c.mode
						if c.startS != 0 {
							tag += ":start>0"
						}
						if snr != 0 {
							tag += ":snr>0"
						}
						if resp.Code != exp {
							sig := ""
							switch {
							case resp.Code == 500 && len(resp.Body) == 0:
								sig = "crash"
							case want != 0 && resp.Code == 200:
								sig = "scheduled-code-not-delivered"
							case want == 0 && resp.Code >= 400:
								sig = fmt.Sprintf("unscheduled-status-%d", resp.Code)
							default:
								sig = fmt.Sprintf("wrong-code-%d-instead-of-%d", resp.Code, exp)
							}
							r.Violation("statuscode:"+sig+":"+rp.ContentType+":"+tag, map[string]any{"url": full, "n": n, "video_start_s": float64(vs) / float64(vr.Timescale), "patterns": fmt.Sprint(set), "expected": exp, "got": resp.Code, "body": vfTrunc(resp.Body, 60)})
							if sig == "crash" {
								break
							}
							continue
						}
						if want != 0 && !strings.Contains(string(resp.Body), "triggered code") {
							// any body is fine; only the code is claimed
						}
						r.Class(fmt.Sprintf("%s|set%d|%s|%s|hit=%v", w.Ref.Path, si, rp.ContentType, tag, want != 0))
						if sampled < 3 && want != 0 && n > 5 {
							sampled++
							r.Sample(map[string]any{"url": full, "n": n, "expected_code": exp, "got": resp.Code})
						}
					}
				}
			}
		}
	}
	vfC14Traffic(t, r, worlds[0], &caseNo)
	vfReaskAtOnce(r, reask, "segments-under-status-code-patterns")
	if r.NViolations() > 0 {
		t.Fail()
	}
}

type vfItvl struct {
	st  byte // u d s h
	dur int
}

func vfTrafficState(p []vfItvl, s int64) byte {
	tot := 0
	for _, i := range p {
		tot += i.dur
	}
	x := int(s % int64(tot))
	for _, i := range p {
		if x < i.dur {
			return i.st
		}
		x -= i.dur
	}
	return '?'
}

func vfTrafficStr(p []vfItvl) string {
	s := ""
	for _, i := range p {
		s += string(i.st) + strconv.Itoa(i.dur)
	}
	return s
}

func vfC14Traffic(t *testing.T, r *rep.R, w vfWorld, caseNo *int) {
	a := w.Asset
	vr := a.Ref
	// pattern lists: exhaustive over {u,d} with <= 3 intervals of 1..3 s (cheap), plus seeded ones with s/h
	var lists [][][]vfItvl
	var gen func(pre []vfItvl, depth int)
	var singles [][]vfItvl
	gen = func(pre []vfItvl, depth int) {
		if len(pre) > 0 {
			singles = append(singles, append([]vfItvl{}, pre...))
		}
		if depth == 3 {
			return
		}
		for _, st := range []byte{'u', 'd'} {
			if len(pre) > 0 && pre[len(pre)-1].st == st {
				continue
			}
			for d := 1; d <= 3; d++ {
				gen(append(pre, vfItvl{st, d}), depth+1)
			}
		}
	}
	gen(nil, 0)
	rng := r.Rand(77)
	for i := 0; i+1 < len(singles); i += 2 {
		lists = append(lists, [][]vfItvl{singles[i], singles[i+1]})
	}
	if !r.Thorough() {
		rng.Shuffle(len(lists), func(i, j int) { lists[i], lists[j] = lists[j], lists[i] })
		lists = lists[:12]
	}
	lists = append(lists, [][]vfItvl{{{'u', 20}, {'d', 10}}}, [][]vfItvl{{{'u', 10}, {'d', 3}, {'u', 12}}, {{'d', 2}, {'u', 7}}, {{'u', 1}}})
	type probe struct {
		url   string
		state byte
		pat   string
	}
	var slowProbes []probe
	for li, pl := range lists {
		*caseNo++
		var ps []string
		for _, p := range pl {
			ps = append(ps, vfTrafficStr(p))
		}
		cfg := "traffic_" + strings.Join(ps, ",")
		if !r.Begin(*caseNo, cfg) {
			continue
		}
		// MPD offers one BaseURL per pattern
		mu := vfURL(cfg, w.Ref.Path, w.Ref.MPD, 500_000)
		mr := vfGet(w.Srv, mu)
		r.Eval(1)
		if mr.Code != 200 {
			r.Violation(fmt.Sprintf("traffic:mpd-status-%d", mr.Code), map[string]any{"url": mu, "body": vfTrunc(mr.Body, 80)})
			continue
		}
		if m, err := ora.ParseMPD(mr.Body); err == nil && len(m.Periods) == 1 {
			var want []string
			for i := range pl {
				want = append(want, fmt.Sprintf("bu%d/", i))
			}
			if fmt.Sprint(m.Periods[0].BaseURLs) != fmt.Sprint(want) {
				r.Violation("traffic:mpd-baseurls", map[string]any{"url": mu, "baseurls": fmt.Sprint(m.Periods[0].BaseURLs), "want": fmt.Sprint(want)})
			}
		}
		tot := 0
		for _, p := range pl {
			c := 0
			for _, i := range p {
				c += i.dur
			}
			if c > tot {
				tot = c
			}
		}
		base := int64(400_000 + li*1000)
		for s := base; s < base+int64(2*tot)+1; s++ {
			for b, p := range pl {
				st := vfTrafficState(p, s)
				nowMS := s*1000 + int64((s*37+int64(b)*13)%1000)
				n := a.NewestAvail(vr, nowMS, 0, 0) - 1
				u := vfURL(cfg, w.Ref.Path, fmt.Sprintf("bu%d/%s", b, vfMediaURL(vr, uint64(n))), nowMS)
				if st == 's' || st == 'h' {
					slowProbes = append(slowProbes, probe{u, st, vfTrafficStr(p)})
					continue
				}
				resp := vfGet(w.Srv, u)
				r.Eval(1)
				exp := 200
				if st == 'd' {
					exp = 404
				}
				if resp.Code != exp {
					sig := fmt.Sprintf("traffic:state-%c-answered-%d", st, resp.Code)
					if resp.Code == 500 && len(resp.Body) == 0 {
						sig = "traffic:crash"
					}
					r.Violation(sig, map[string]any{"url": u, "pattern": vfTrafficStr(p), "second": s, "position_in_cycle": s % int64(tot), "expected": exp})
				}
				r.Class(fmt.Sprintf("traffic|intervals=%d|state=%c|baseurl=%d", len(p), st, b))
			}
		}
	}
	// slow / hang: real sleeps, probed in parallel
	for _, pl := range [][]vfItvl{{{'u', 2}, {'s', 2}, {'h', 1}, {'d', 1}}, {{'h', 3}}, {{'s', 1}, {'u', 1}}} {
		cfg := "traffic_" + vfTrafficStr(pl) + ",u5"
		tot := 0
		for _, i := range pl {
			tot += i.dur
		}
		for s := int64(600_000); s < 600_000+int64(tot); s++ {
			st := vfTrafficState(pl, s)
			nowMS := s*1000 + 500
			n := a.NewestAvail(vr, nowMS, 0, 0) - 1
			u := vfURL(cfg, w.Ref.Path, "bu0/"+vfMediaURL(vr, uint64(n)), nowMS)
			slowProbes = append(slowProbes, probe{u, st, vfTrafficStr(pl)})
		}
	}
	if !r.Thorough() && len(slowProbes) > 14 {
		slowProbes = slowProbes[len(slowProbes)-14:]
	}
	var wg sync.WaitGroup
	for _, p := range slowProbes {
		wg.Add(1)
		go func(p probe) {
			defer wg.Done()
			t0 := time.Now()
			resp := vfGet(w.Srv, p.url)
			el := time.Since(t0)
			r.Eval(1)
			switch p.state {
			case 's':
				if resp.Code != 200 || el < 2*time.Second {
					r.Violation("traffic:slow-state-not-slow-200", map[string]any{"url": p.url, "status": resp.Code, "elapsed_ms": el.Milliseconds()})
				}
			case 'h':
				if resp.Code != 503 || el < 10*time.Second {
					r.Violation("traffic:hang-state-not-503-after-10s", map[string]any{"url": p.url, "status": resp.Code, "elapsed_ms": el.Milliseconds()})
				}
			case 'u':
				if resp.Code != 200 {
					r.Violation("traffic:state-u-answered-"+strconv.Itoa(resp.Code), map[string]any{"url": p.url})
				}
			case 'd':
				if resp.Code != 404 {
					r.Violation("traffic:state-d-answered-"+strconv.Itoa(resp.Code), map[string]any{"url": p.url})
				}
			}
			r.Class(fmt.Sprintf("traffic-timed|state=%c|%s", p.state, p.pat))
		}(p)
	}
	wg.Wait()
}
