package app

// C15 – the representation-metadata cache never changes what is served.
// Differential monitor: server instances on scan / write / cache-loaded / damaged-cache metadata answer the same corpus.

import (
	"bytes"
	"compress/gzip"
	"context"
	"fmt"
	"io"
	"os"
	"path/filepath"
	"sort"
	"strings"
	"testing"

	"verif.local/vlib/ora"
	"verif.local/vlib/rep"
)

func vfCopyTree(src, dst string) error {
	return filepath.Walk(src, func(p string, info os.FileInfo, err error) error {
		if err != nil {
			return err
		}
		rel, _ := filepath.Rel(src, p)
		if info.IsDir() {
			return os.MkdirAll(filepath.Join(dst, rel), 0755)
		}
		b, err := os.ReadFile(p)
		if err != nil {
			return err
		}
		return os.WriteFile(filepath.Join(dst, rel), b, 0644)
	})
}

func vfTreeHashes(root string) map[string]uint64 {
	out := map[string]uint64{}
	_ = filepath.Walk(root, func(p string, info os.FileInfo, err error) error {
		if err == nil && !info.IsDir() && strings.HasSuffix(p, "_data.json.gz") {
			b, _ := os.ReadFile(p)
			// compare the JSON payload (gzip header carries no time here, but be independent of it)
			if zr, err := gzip.NewReader(bytes.NewReader(b)); err == nil {
				if js, err := io.ReadAll(zr); err == nil {
					b = js
				}
			}
			rel, _ := filepath.Rel(root, p)
			out[rel] = vfHash(b)
		}
		return nil
	})
	return out
}

// vfTrySetup starts a server and converts a start-up panic into an error.
func vfTrySetup(cfg ServerConfig) (s *Server, err error) {
	defer func() {
		if e := recover(); e != nil {
			err = fmt.Errorf("panic during start-up: %v", e)
		}
	}()
	cfg.LogFormat = "discard"
	return SetupServer(context.Background(), &cfg)
}

func TestVerifC15(t *testing.T) {
	r := rep.New("C15")
	r.FlushEach = true
	r.Rule("case = (vod root {bundled, generated}, metadata mode {scan, write, cache, shared root, damaged cache file x damage kind}) x request corpus; class = (root, mode/damage kind, request kind, outcome {identical, asset-omitted, refused-to-start}); " +
		"counted when a response of the instance under test was compared with the scanning instance")
	r.Assume("acceptable outcomes for a damaged cache: the server refuses to start, or the asset is omitted (404 and absent from /assets), or every answer equals the scanning server's")
	defer func() { r.Done(); t.Log(r.Summary()) }()
	vfInitLog()
	// vod roots: writable copy of the bundled assets + generated layouts (incl. inadmissible ones)
	broot := t.TempDir()
	if err := vfCopyTree(vfBundledVod(), broot); err != nil {
		t.Fatal(err)
	}
	groot := t.TempDir()
	if err := ora.WriteStandardGenAssets(groot, vfBundledVod()); err != nil {
		t.Fatal(err)
	}
	bad := []ora.GenAsset{
		// loop 1001/24000*50 = 2.0854166 s: not a whole number of ms
		{Name: "bad/nonms", Tracks: []ora.GenTrack{{ID: "v", Kind: "video", Timescale: 24000, SampleDur: 1001, SegSamples: []int{25, 25}, UseTime: true}}},
		// two video representations of different length
		{Name: "bad/twolen2", Tracks: []ora.GenTrack{{ID: "v1", Kind: "video", Timescale: 1000, SampleDur: 40, SegSamples: []int{50, 25}}, {ID: "v2", Kind: "video", Timescale: 1000, SampleDur: 40, SegSamples: []int{50, 50}}}},
		{Name: "bad/twolen", Tracks: []ora.GenTrack{{ID: "v1", Kind: "video", Timescale: 1000, SampleDur: 40, SegSamples: []int{50, 50}}, {ID: "v2", Kind: "video", Timescale: 1000, SampleDur: 40, SegSamples: []int{50, 25}}}},
	}
	for _, g := range bad {
		if err := g.Write(groot, vfBundledVod()); err != nil {
			t.Fatal(err)
		}
	}
	caseNo := 0
	for _, root := range []struct {
		name string
		dir  string
		refs []vfAssetRef
		gen  bool
	}{{"bundled", broot, vfBundledAssets, false}, {"generated", groot, vfGenAssets, true}} {
		scan, err := vfTrySetup(ServerConfig{VodRoot: root.dir})
		if err != nil {
			t.Fatalf("scan server on %s: %v", root.name, err)
		}
		var worlds []vfWorld
		for _, ar := range root.refs {
			a, err := ora.LoadAsset(root.dir, ar.Path, ar.MPD, false)
			if err != nil {
				t.Fatal(err)
			}
			worlds = append(worlds, vfWorld{scan, root.dir, ar, a})
		}
		corpus := vfCorpus(worlds, r.Rand(15), r.Pick(18, 120), root.gen)
		corpus = append(corpus, vfReq{"GET", "/assets", "", "assets-page"})
		refAns := make([]vfAns, len(corpus))
		for i, q := range corpus {
			refAns[i] = vfAnswer(scan, q)
		}
		r.Add("corpus_"+root.name, int64(len(corpus)))
		// inadmissible assets must be absent
		if root.gen {
			ap := vfGet(scan, "/assets")
			for _, g := range bad {
				for _, tail := range []string{"gen.mpd", "v/0.m4s", "v1/1.m4s"} {
					u := vfURL("", g.Name, tail, 100000)
					resp := vfGet(scan, u)
					r.Eval(1)
					if resp.Code != 404 {
						r.Violation("inadmissible-asset-served:"+g.Name, map[string]any{"url": u, "status": resp.Code})
					}
				}
				if strings.Contains(string(ap.Body), g.Name) {
					r.Violation("inadmissible-asset-listed:"+g.Name, map[string]any{"page": "/assets"})
				}
				r.Class("inadmissible|" + g.Name)
			}
		}
		compare := func(tag string, s *Server, allowOmit map[string]bool) {
			for i, q := range corpus {
				got := vfAnswer(s, q)
				r.Eval(1)
				if got == refAns[i] {
					r.Class(fmt.Sprintf("%s|%s|%s|identical", root.name, tag, q.Kind))
					if i%97 == 3 && tag != "write" {
						r.Sample(map[string]any{"mode": tag, "root": root.name, "url": q.URL, "scan_answer": fmt.Sprintf("%+v", refAns[i]), "instance_answer": fmt.Sprintf("%+v", got)})
					}
					continue
				}
				omittedAsset := ""
				for ap := range allowOmit {
					if strings.Contains(q.URL, "/"+ap+"/") {
						omittedAsset = ap
					}
				}
				if omittedAsset != "" && got.code == 404 {
					r.Class(fmt.Sprintf("%s|%s|%s|asset-omitted", root.name, tag, q.Kind))
					continue
				}
				if q.Kind == "assets-page" && len(allowOmit) > 0 {
					continue // judged separately
				}
				sig := "answer-differs-from-scanning-server"
				if got.code == 500 && got.n == 0 {
					sig = "crash"
				} else if got.code != refAns[i].code {
					sig = fmt.Sprintf("status-%d-instead-of-%d", got.code, refAns[i].code)
				}
				tagClass := tag
				if strings.HasPrefix(tag, "damage:") {
					tagClass = "damaged-cache" // one defect whatever the damage kind or request kind
					if sig != "crash" {
						sig = "answer-differs-from-scanning-server"
					}
				}
				r.Violation(tagClass+":"+sig, map[string]any{"url": q.URL, "request_kind": q.Kind, "mode": tag, "scan": fmt.Sprintf("%+v", refAns[i]), "instance": fmt.Sprintf("%+v", got), "root": root.name})
			}
		}
		// ---- write mode, idempotence, cache mode (separate metadata root)
		meta := t.TempDir()
		caseNo++
		if r.Begin(caseNo, root.name+" write+cache") {
			w1, err := vfTrySetup(ServerConfig{VodRoot: root.dir, RepDataRoot: meta, WriteRepData: true})
			if err != nil {
				r.Violation("write-mode-does-not-start", map[string]any{"err": err.Error()})
				continue
			}
			compare("write", w1, nil)
			h1 := vfTreeHashes(meta)
			// fault sequence: stale, longer files already sit where the metadata is written (write mode must replace them)
			k := 0
			for f := range h1 {
				full := filepath.Join(meta, f)
				orig, _ := os.ReadFile(full)
				switch k % 3 {
				case 0:
					os.WriteFile(full, append(append([]byte{}, orig...), bytes.Repeat([]byte("stale-tail "), 40)...), 0644)
				case 1:
					os.WriteFile(full, bytes.Repeat([]byte{0x1f, 0x8b, 0x08, 0x00, 0x55}, 4000), 0644)
				}
				k++
			}
			w2, err := vfTrySetup(ServerConfig{VodRoot: root.dir, RepDataRoot: meta, WriteRepData: true})
			if err == nil {
				compare("write-again", w2, nil)
			}
			h2 := vfTreeHashes(meta)
			if len(h1) == 0 || fmt.Sprint(h1) != fmt.Sprint(h2) {
				r.Violation("writing-metadata-twice-gives-different-files", map[string]any{"files_first": len(h1), "files_second": len(h2)})
			}
			r.Class(root.name + "|write-idempotent")
			c1, err := vfTrySetup(ServerConfig{VodRoot: root.dir, RepDataRoot: meta})
			if err != nil {
				r.Violation("cache-mode-does-not-start", map[string]any{"err": err.Error()})
				continue
			}
			compare("cache", c1, nil)
		}
		// ---- shared root (metadata next to the media files)
		if !root.gen {
			caseNo++
			if r.Begin(caseNo, root.name+" shared root") {
				if ws, err := vfTrySetup(ServerConfig{VodRoot: root.dir, RepDataRoot: root.dir, WriteRepData: true}); err == nil {
					compare("shared-write", ws, nil)
					if cs, err := vfTrySetup(ServerConfig{VodRoot: root.dir, RepDataRoot: root.dir}); err == nil {
						compare("shared-cache", cs, nil)
					}
				}
				// clean the shared files again
				_ = filepath.Walk(root.dir, func(p string, info os.FileInfo, err error) error {
					if err == nil && strings.HasSuffix(p, "_data.json.gz") {
						os.Remove(p)
					}
					return nil
				})
			}
		}
		// ---- damaged cache files
		var files []string
		for f := range vfTreeHashes(meta) {
			files = append(files, f)
		}
		sort.Strings(files)
		if len(files) == 0 {
			continue
		}
		type damage struct {
			name string
			do   func(orig []byte, path string)
		}
		gz := func(b []byte) []byte {
			var buf bytes.Buffer
			zw := gzip.NewWriter(&buf)
			zw.Write(b)
			zw.Close()
			return buf.Bytes()
		}
		ungz := func(b []byte) []byte {
			zr, err := gzip.NewReader(bytes.NewReader(b))
			if err != nil {
				return nil
			}
			js, _ := io.ReadAll(zr)
			return js
		}
		damages := []damage{
			{"deleted", func(o []byte, p string) { os.Remove(p) }},
			{"empty", func(o []byte, p string) { os.WriteFile(p, nil, 0644) }},
			{"truncated-gzip-half", func(o []byte, p string) { os.WriteFile(p, o[:len(o)/2], 0644) }},
			{"truncated-gzip-header", func(o []byte, p string) { os.WriteFile(p, o[:7], 0644) }},
			{"truncated-gzip-trailer", func(o []byte, p string) { os.WriteFile(p, o[:len(o)-3], 0644) }},
			{"byte-flip-header", func(o []byte, p string) { c := append([]byte{}, o...); c[1] ^= 0xff; os.WriteFile(p, c, 0644) }},
			{"byte-flip-stream", func(o []byte, p string) { c := append([]byte{}, o...); c[len(c)/2] ^= 0x55; os.WriteFile(p, c, 0644) }},
			{"byte-flip-trailer", func(o []byte, p string) { c := append([]byte{}, o...); c[len(c)-2] ^= 0x0f; os.WriteFile(p, c, 0644) }},
			{"valid-gzip-truncated-json", func(o []byte, p string) { js := ungz(o); os.WriteFile(p, gz(js[:len(js)*2/3]), 0644) }},
			{"valid-gzip-empty-object", func(o []byte, p string) { os.WriteFile(p, gz([]byte("{}")), 0644) }},
			{"valid-gzip-garbage", func(o []byte, p string) { os.WriteFile(p, gz([]byte("not json at all")), 0644) }},
			{"plain-json-beside-gz", func(o []byte, p string) { os.WriteFile(strings.TrimSuffix(p, ".gz"), ungz(o), 0644) }},
			{"stale-plain-json-beside-gz", func(o []byte, p string) {
				// a left-over uncompressed file of an older, shorter version of the representation (valid and contiguous: its last
				// segment is missing); the fresh .gz is the one that counts
				js := string(ungz(o))
				if i := strings.Index(js, `"segments":[`); i > 0 {
					if j := strings.Index(js[i:], "]"); j > 0 {
						if k := strings.LastIndex(js[i:i+j], "},{"); k > 0 {
							js = js[:i+k+1] + js[i+j:]
							os.WriteFile(strings.TrimSuffix(p, ".gz"), []byte(js), 0644)
						}
					}
				}
			}},
			{"middle-segment-dropped-from-json", func(o []byte, p string) {
				// detectably corrupt: the table is no longer contiguous (needs >= 3 segments; otherwise the file is left intact)
				js := string(ungz(o))
				if i := strings.Index(js, `"segments":[`); i > 0 {
					a := i + strings.Index(js[i:], "},{")
					if a > i {
						b := a + 2 + strings.Index(js[a+2:], "},{")
						if b > a+2 {
							js = js[:a+1] + js[b+1:]
						}
					}
				}
				os.WriteFile(p, gz([]byte(js)), 0644)
			}},
		}
		// single-bit flips somewhere in the compressed stream: most give an undecodable stream, some decode to other bytes with a
		// checksum that no longer matches - the loader must notice either
		for k := 0; k < r.Pick(8, 16); k++ {
			k := k
			damages = append(damages, damage{fmt.Sprintf("bit-flip-%d", k), func(o []byte, p string) {
				c := append([]byte{}, o...)
				if len(c) > 40 {
					pos := 12 + int((uint64(k)*2654435761+uint64(len(c))*40503)%uint64(len(c)-24))
					c[pos] ^= 1 << (uint(k) % 8)
				}
				os.WriteFile(p, c, 0644)
			}})
		}
		rng := r.Rand(1515)
		nFiles := r.Pick(4, len(files))
		perm := rng.Perm(len(files))
		for fi := 0; fi < nFiles && fi < len(files); fi++ {
			f := files[perm[fi]]
			full := filepath.Join(meta, f)
			orig, _ := os.ReadFile(full)
			assetPath := filepath.Dir(f)
			for di, dm := range damages {
				if !r.Thorough() && (di+fi+int(r.Seed))%3 != 0 && dm.name != "truncated-gzip-half" && dm.name != "valid-gzip-garbage" && !strings.HasPrefix(dm.name, "bit-flip") {
					continue
				}
				caseNo++
				if !r.Begin(caseNo, fmt.Sprintf("%s damage %s of %s", root.name, dm.name, f)) {
					continue
				}
				dm.do(orig, full)
				s, err := vfTrySetup(ServerConfig{VodRoot: root.dir, RepDataRoot: meta})
				if err != nil {
					if strings.Contains(err.Error(), "panic") {
						r.Violation("damaged-cache:start-up-panic:"+dm.name, map[string]any{"file": f, "err": err.Error()})
					} else {
						r.Class(fmt.Sprintf("%s|damage:%s|refused-to-start", root.name, dm.name))
					}
				} else {
					// asset either fully there or omitted: decide by the /assets page and a 404 on its MPDs
					ap := vfGet(s, "/assets")
					listed := strings.Contains(string(ap.Body), assetPath)
					allow := map[string]bool{}
					if !listed {
						allow[assetPath] = true
					}
					compare("damage:"+dm.name, s, allow)
					if !listed {
						// omitted means omitted: nothing of it may be served
						for _, q := range corpus {
							if strings.Contains(q.URL, "/"+assetPath+"/") && q.Kind == "mpd" {
								if got := vfAnswer(s, q); got.code != 404 {
									r.Violation("damaged-cache:asset-not-listed-but-served:"+dm.name, map[string]any{"url": q.URL, "status": got.code})
								}
								break
							}
						}
					}
				}
				// restore
				os.WriteFile(full, orig, 0644)
				os.Remove(strings.TrimSuffix(full, ".gz"))
			}
		}
	}
	if r.NViolations() > 0 {
		t.Fail()
	}
}
