package app

// C16 – the CMAF-ingest sender emits a complete, ordered and faithful stream.
// A scripted receiver logs every PUT; the per-endpoint log is checked offline against livesim2's own GET output.
// Sessions are driven through the REST API in step mode (virtual time); built with -race.

import (
	"bytes"
	"encoding/base64"
	"encoding/json"
	"fmt"
	"io"
	"net/http"
	"net/http/httptest"
	"regexp"
	"strconv"
	"strings"
	"sync"
	"testing"
	"time"

	"verif.local/vlib/ora"
	"verif.local/vlib/rep"
)

type vfPut struct {
	idx   int
	path  string
	hdr   http.Header
	body  []byte
	teCnk bool
}

type vfScriptedRecv struct {
	mu      sync.Mutex
	puts    []vfPut
	fail    func(path string, n int) int // status to answer (0 = 200); n = arrival index of this path
	delay   time.Duration
	ackWait time.Duration // answer this long after the request has been logged
	perPath map[string]int
	srv     *httptest.Server
}

func vfNewScriptedRecv() *vfScriptedRecv {
	s := &vfScriptedRecv{perPath: map[string]int{}}
	s.srv = httptest.NewServer(http.HandlerFunc(func(w http.ResponseWriter, r *http.Request) {
		b, _ := io.ReadAll(r.Body)
		if s.delay > 0 {
			time.Sleep(s.delay)
		}
		s.mu.Lock()
		n := s.perPath[r.URL.Path]
		s.perPath[r.URL.Path]++
		s.puts = append(s.puts, vfPut{len(s.puts), r.URL.Path, r.Header.Clone(), b, len(r.TransferEncoding) > 0 && r.TransferEncoding[0] == "chunked"})
		code := 0
		if s.fail != nil {
			code = s.fail(r.URL.Path, n)
		}
		s.mu.Unlock()
		if s.ackWait > 0 {
			time.Sleep(s.ackWait)
		}
		if r.Method != "PUT" {
			w.WriteHeader(405)
			return
		}
		if code != 0 {
			w.WriteHeader(code)
			return
		}
		w.WriteHeader(200)
	}))
	return s
}

func (s *vfScriptedRecv) snapshot() []vfPut {
	s.mu.Lock()
	defer s.mu.Unlock()
	return append([]vfPut{}, s.puts...)
}

// waitFor waits until pred(log) holds (watchdog: inconclusive, never a verdict)
func (s *vfScriptedRecv) waitFor(pred func([]vfPut) bool, d time.Duration) bool {
	deadline := time.Now().Add(d)
	for time.Now().Before(deadline) {
		if pred(s.snapshot()) {
			return true
		}
		time.Sleep(3 * time.Millisecond)
	}
	return pred(s.snapshot())
}

var vfEndpointRe = regexp.MustCompile(`^/([^/]+)/(?:Streams\(([^)]+?)(\.cmf[vatm])\)|([^/]+)/([^/]+?)(\.cmf[vatm]))$`)

type vfSessCfg struct {
	asset, mpd  string
	cfg         string // livesim URL cfg part
	streams     bool
	user, pass  string
	testNowMS   int64
	duration    int // 0: none
	steps       int
	deleteAfter int // >0: DELETE after that many steps
	idleMS      int // >0: after the steps the session is left alone for that long (real time): a step-mode session sends nothing on its own
	recvFail    string
}

func TestVerifC16(t *testing.T) {
	r := rep.New("C16")
	r.FlushEach = true
	r.Rule("case = one ingest session (asset, URL cfg {Number|Timeline, timesubs, chunked}, Streams() or per-segment URLs, credentials, duration, step sequence, receiver behaviour {ok, 500 on some PUTs, slow}) driven in step mode, possibly concurrently with other sessions; " +
		"class = (asset, cfg kind, url style, duration?, receiver behaviour, steps bucket); counted when the receiver log of the session was checked endpoint by endpoint against livesim2's GET output")
	r.Assume("step mode only (virtual time): segment k of a session is generated for the instant of its availability time, so GET <segment>?nowMS=A(k) is the reference body")
	r.Assume("waiting for PUTs to arrive is bounded by a 20 s watchdog whose firing is inconclusive, not a violation; after the end of a session (duration reached / DELETE) one further step is issued: it must return and deliver nothing")
	defer func() { r.Done(); t.Log(r.Summary()) }()
	s := vfBundledServer(t)
	truth := map[string]*ora.Asset{}
	get := func(path, mpd string) *ora.Asset {
		k := path + "|" + mpd
		if a, ok := truth[k]; ok {
			return a
		}
		a, err := ora.LoadAsset(vfBundledVod(), path, mpd, false)
		if err != nil {
			t.Fatal(err)
		}
		truth[k] = a
		return a
	}
	var cases []vfSessCfg
	base := []vfSessCfg{
		{asset: "testpic_2s", mpd: "Manifest.mpd", cfg: "", testNowMS: 100500, steps: 3},
		{asset: "testpic_2s", mpd: "Manifest.mpd", cfg: "", testNowMS: 101900, steps: 1, idleMS: 2600}, // the next segment would be due 2.1 s after the test instant
		{asset: "testpic_2s", mpd: "Manifest.mpd", cfg: "segtimeline_1", testNowMS: 100500, steps: 4, streams: true},
		{asset: "testpic_2s", mpd: "Manifest.mpd", cfg: "segtimeline_1", testNowMS: 31999, steps: 5, user: "u1", pass: "secret"},
		{asset: "testpic_2s", mpd: "Manifest.mpd", cfg: "", testNowMS: 100500, duration: 8, steps: 4},
		{asset: "testpic_2s", mpd: "Manifest.mpd", cfg: "snr_7", testNowMS: 64000, duration: 4, steps: 2, streams: true},
		{asset: "testpic_2s", mpd: "Manifest.mpd", cfg: "", testNowMS: 84000, duration: 1, steps: 1},              // shorter than one segment: nothing but the inits
		{asset: "testpic_6s", mpd: "Manifest.mpd", cfg: "segtimeline_1", testNowMS: 61000, duration: 7, steps: 3}, // one segment, marked as last
		{asset: "testpic_8s", mpd: "Manifest.mpd", cfg: "", testNowMS: 1_700_000_003_000, steps: 3},
		{asset: "testpic_6s", mpd: "Manifest.mpd", cfg: "segtimeline_1", testNowMS: 60000, duration: 12, steps: 2},
		{asset: "testpic_2s", mpd: "Manifest.mpd", cfg: "timesubsstpp_en", testNowMS: 100500, steps: 3},
		{asset: "testpic_2s", mpd: "Manifest_imsc1.mpd", cfg: "", testNowMS: 50000, steps: 3},
		{asset: "testpic_2s", mpd: "Manifest_imsc1.mpd", cfg: "segtimeline_1/ato_1", testNowMS: 70400, steps: 3}, // every kind of representation with an offset
		{asset: "testpic_alt_seg_dur_stl", mpd: "Manifest.mpd", cfg: "", testNowMS: 14000, steps: 4},
		{asset: "WAVE/vectors/cfhd_sets/14.985_29.97_59.94/t1/2022-10-17", mpd: "stream.mpd", cfg: "", testNowMS: 7000, steps: 6},
		{asset: "testpic_2s", mpd: "Manifest.mpd", cfg: "", testNowMS: 100500, steps: 6, deleteAfter: 2},
		{asset: "testpic_2s", mpd: "Manifest.mpd", cfg: "", testNowMS: 100500, steps: 6, deleteAfter: 2, recvFail: "slow-ack"},
		{asset: "testpic_2s", mpd: "Manifest.mpd", cfg: "segtimeline_1", testNowMS: 90500, steps: 6, deleteAfter: 1, recvFail: "slow-ack", streams: true},
		{asset: "testpic_6s", mpd: "Manifest.mpd", cfg: "", testNowMS: 70500, steps: 6, deleteAfter: 3, recvFail: "slow-ack"},
		{asset: "testpic_8s", mpd: "Manifest.mpd", cfg: "", testNowMS: 170500, steps: 6, deleteAfter: 2, recvFail: "slow-ack"},
		{asset: "testpic_2s", mpd: "Manifest.mpd", cfg: "", testNowMS: 100500, steps: 4, recvFail: "500-on-2nd-media"},
		{asset: "testpic_2s", mpd: "Manifest.mpd", cfg: "segtimeline_1", testNowMS: 100500, steps: 3, recvFail: "slow"},
		{asset: "testpic_2s", mpd: "Manifest.mpd", cfg: "ato_1/chunkdur_0.5", testNowMS: 100500, steps: 2},
		{asset: "testpic_2s", mpd: "Manifest.mpd", cfg: "", testNowMS: 100500, steps: 0, recvFail: "delete-during-init"},
		{asset: "testpic_6s", mpd: "Manifest.mpd", cfg: "segtimeline_1", testNowMS: 50500, steps: 0, recvFail: "delete-during-init", streams: true},
	}
	cases = append(cases, base...)
	if r.Thorough() {
		rng := r.Rand(16)
		for i := 0; i < 80; i++ {
			c := base[rng.Intn(len(base)-1)]
			c.testNowMS += int64(rng.Intn(200000))
			c.steps = rng.Intn(12)
			if c.duration > 0 {
				c.steps = c.duration * 1000 / 2000
			}
			c.streams = rng.Intn(2) == 0
			cases = append(cases, c)
		}
	}
	for _, c := range cases {
		get(c.asset, c.mpd) // load the truth tables before the concurrent phase
	}
	// sessions run in groups of up to 3 concurrently (shared sender process, separate receivers)
	for gi := 0; gi < len(cases); gi += 3 {
		grp := cases[gi:min(len(cases), gi+3)]
		if !r.Begin(gi/3+1, fmt.Sprintf("group %d: %+v", gi/3, grp)) {
			continue
		}
		var wg sync.WaitGroup
		for k, c := range grp {
			wg.Add(1)
			go func(k int, c vfSessCfg) {
				defer wg.Done()
				vfC16Session(r, s, get(c.asset, c.mpd), c, gi+k)
			}(k, c)
		}
		wg.Wait()
	}
	// real-time sessions (no testNowMS): the sender's own clock and timers drive the session
	if r.Begin(10_000, "real-time sessions") {
		var wg sync.WaitGroup
		for k, c := range []struct {
			cfg      string
			duration int
			streams  bool
		}{{"", 4, false}, {"segtimeline_1", 6, true}, {"snr_3", 2, false}}[:r.Pick(1, 3)] {
			wg.Add(1)
			go func(k int, cfg string, duration int, streams bool) {
				defer wg.Done()
				vfC16RealTime(r, s, cfg, duration, streams, k)
			}(k, c.cfg, c.duration, c.streams)
		}
		wg.Wait()
	}
	if r.NViolations() > 0 {
		t.Fail()
	}
}

// vfC16RealTime runs one session of testpic_2s on the wall clock. Judged without any clock: per endpoint the init first, then
// duration/2 media segments with consecutive numbers, the last one marked, each with the samples livesim2 serves for that number,
// and silence afterwards. Waiting is bounded by watchdogs whose firing is inconclusive.
func vfC16RealTime(r *rep.R, s *Server, cfg string, duration int, streams bool, k int) {
	rc := vfNewScriptedRecv()
	defer rc.srv.Close()
	url := "/livesim2/"
	if cfg != "" {
		url += cfg + "/"
	}
	url += "testpic_2s/Manifest.mpd"
	destName := fmt.Sprintf("rt%d", k)
	jb, _ := json.Marshal(map[string]any{"destRoot": rc.srv.URL, "destName": destName, "livesimURL": url, "duration": duration, "streamsURLs": streams})
	det := func(what string) map[string]any { return map[string]any{"session": string(jb), "what": what} }
	resp := vfDo(s, "POST", "/api/cmaf-ingests", bytes.NewReader(jb), map[string]string{"Content-Type": "application/json"})
	r.Eval(1)
	if resp.Code != 201 {
		r.Violation(fmt.Sprintf("real-time:session-create-status-%d", resp.Code), det(vfTrunc(resp.Body, 200)))
		return
	}
	wantMedia := duration / 2
	eps := []string{"V300", "A48"}
	want := len(eps) * (1 + wantMedia)
	if !rc.waitFor(func(l []vfPut) bool { return len(l) >= want }, time.Duration(duration+15)*time.Second) {
		r.Inconclusive("real-time:puts-did-not-arrive-in-time")
		return
	}
	time.Sleep(2500 * time.Millisecond) // more than one segment duration: an ended session stays silent
	log := rc.snapshot()
	if len(log) != want {
		r.Violation("real-time:session-continues-after-duration", det(fmt.Sprintf("%d PUTs, expected %d (= %d endpoints x (init + %d media))", len(log), want, len(eps), wantMedia)))
		return
	}
	byEp := map[string][]vfPut{}
	for _, p := range log {
		m := vfEndpointRe.FindStringSubmatch(p.path)
		if m == nil || m[1] != destName {
			r.Violation("real-time:put-to-unexpected-path", det(p.path))
			return
		}
		byEp[m[2]+m[4]] = append(byEp[m[2]+m[4]], p)
	}
	first := int64(-1)
	for _, ep := range eps {
		puts := byEp[ep]
		if len(puts) != 1+wantMedia || !bytes.Contains(puts[0].body, []byte("moov")) {
			r.Violation("real-time:endpoint-requests", det(fmt.Sprintf("%s: %d requests, init first=%v", ep, len(puts), len(puts) > 0 && bytes.Contains(puts[0].body, []byte("moov")))))
			return
		}
		for i, p := range puts[1:] {
			ps, err := ora.ParseSegment(p.body, nil)
			if err != nil {
				r.Violation("real-time:media-put-unparseable", det(p.path))
				return
			}
			if first < 0 {
				first = int64(ps.Seq)
			}
			if int64(ps.Seq) != first+int64(i) {
				r.Violation("real-time:media-sequence", det(fmt.Sprintf("%s request %d carries number %d, expected %d", ep, i+1, ps.Seq, first+int64(i))))
				return
			}
			// what livesim2 serves for that number, long after it became available
			mu := fmt.Sprintf("%s/%d.m4s", ep, ps.Seq)
			if strings.Contains(cfg, "segtimeline_1") {
				mu = fmt.Sprintf("%s/%d.m4s", ep, ps.Tfdt)
			}
			gr := vfGet(s, vfURL(cfg, "testpic_2s", mu, time.Now().UnixMilli()+5000))
			r.Eval(1)
			gs, err := ora.ParseSegment(gr.Body, nil)
			if gr.Code != 200 || err != nil {
				r.Inconclusive("real-time:reference-segment-not-served")
				continue
			}
			same := gs.Seq == ps.Seq && gs.Tfdt == ps.Tfdt && len(gs.Samples) == len(ps.Samples)
			for j := 0; same && j < len(gs.Samples); j++ {
				same = gs.Samples[j] == ps.Samples[j]
			}
			if !same {
				r.Violation("real-time:media-body-differs-from-what-livesim2-serves", det(fmt.Sprintf("%s vs GET %s", p.path, mu)))
				return
			}
			hasLmsg := false
			for _, b := range ps.Brands {
				hasLmsg = hasLmsg || b == "lmsg"
			}
			if hasLmsg != (i == wantMedia-1) {
				r.Violation("real-time:last-segment-marking", det(fmt.Sprintf("%s request %d of %d: lmsg=%v", ep, i+1, wantMedia, hasLmsg)))
				return
			}
		}
	}
	r.Class(fmt.Sprintf("real-time|%s|duration=%d|streams=%v", cfg, duration, streams))
}

func vfC16Session(r *rep.R, s *Server, a *ora.Asset, c vfSessCfg, ci int) {
	rc := vfNewScriptedRecv()
	defer rc.srv.Close()
	mediaSeen := 0
	switch c.recvFail {
	case "500-on-2nd-media":
		rc.fail = func(path string, n int) int {
			if !strings.Contains(path, "init") && !strings.Contains(path, "Streams(") && strings.Contains(path, "/V300/") {
				mediaSeen++
				if mediaSeen == 2 {
					return 500
				}
			}
			return 0
		}
	case "slow":
		rc.delay = 120 * time.Millisecond
	case "slow-ack":
		rc.ackWait = 150 * time.Millisecond // the sender is still waiting for the answers when the next API call arrives
	case "delete-during-init":
		rc.delay = 250 * time.Millisecond // every PUT (the inits come first) is held for a while
	}
	url := "/livesim2/"
	if c.cfg != "" {
		url += c.cfg + "/"
	}
	url += a.Path + "/" + a.MPDName
	destName := fmt.Sprintf("sess%d", ci)
	body := map[string]any{"destRoot": rc.srv.URL, "destName": destName, "livesimURL": url, "testNowMS": c.testNowMS, "streamsURLs": c.streams}
	if c.user != "" {
		body["user"], body["password"] = c.user, c.pass
	}
	if c.duration > 0 {
		body["duration"] = c.duration
	}
	jb, _ := json.Marshal(body)
	det := func(what string) map[string]any {
		return map[string]any{"session": string(jb), "steps": c.steps, "receiver": c.recvFail, "what": what}
	}
	kind := "number"
	if strings.Contains(c.cfg, "segtimeline_1") {
		kind = "timeline"
	}
	if strings.Contains(c.cfg, "chunkdur") {
		kind += "+chunked"
	}
	if strings.Contains(c.cfg, "timesubs") {
		kind += "+timesubs"
	}
	_ = kind
	resp := vfDo(s, "POST", "/api/cmaf-ingests", bytes.NewReader(jb), map[string]string{"Content-Type": "application/json"})
	r.Eval(1)
	if resp.Code != 201 {
		r.Violation(fmt.Sprintf("session-create-status-%d", resp.Code), det(vfTrunc(resp.Body, 200)))
		return
	}
	var cr struct {
		ID string `json:"id"`
	}
	_ = json.Unmarshal(resp.Body, &cr)
	// expected endpoints: every representation of the live MPD (+ generated subtitles)
	type ep struct {
		rep   *ora.Rep
		name  string
		ctype string
		ext   string
	}
	var eps []ep
	for _, id := range a.RepIDs {
		rp := a.Reps[id]
		if rp.ContentType == "image" {
			continue
		}
		ext := map[string]string{"video": ".cmfv", "audio": ".cmfa", "text": ".cmft"}[rp.ContentType]
		eps = append(eps, ep{rp, id, rp.ContentType, ext})
	}
	if strings.Contains(c.cfg, "timesubsstpp_en") {
		eps = append(eps, ep{nil, "timestpp-en", "text", ".cmft"})
	}
	snr := int64(0)
	if m := regexp.MustCompile(`snr_(\d+)`).FindStringSubmatch(c.cfg); m != nil {
		snr, _ = strconv.ParseInt(m[1], 10, 64)
	}
	atoMS := int64(0)
	if m := regexp.MustCompile(`ato_(\d+)`).FindStringSubmatch(c.cfg); m != nil {
		x, _ := strconv.ParseInt(m[1], 10, 64)
		atoMS = x * 1000
	}
	// "right after the live edge": with an availabilityTimeOffset the segment in progress is advertised as available while it is
	// not complete; the statement does not say which edge is meant, so both readings are accepted (all endpoints must agree)
	first := a.NewestAvail(a.Ref, c.testNowMS, 0, 0) + 1
	firstAlt := a.NewestAvail(a.Ref, c.testNowMS, 0, atoMS) + 1
	firstFixed := false
	wantMedia := c.steps
	if c.duration > 0 {
		segMS := a.LoopMS / int64(a.Ref.N())
		if n := c.duration * 1000 / int(segMS); n < wantMedia {
			wantMedia = n
		}
	}
	if c.recvFail == "delete-during-init" {
		// DELETE arrives while the session is still uploading its init segments; afterwards nothing but inits may ever arrive
		time.Sleep(60 * time.Millisecond)
		dr := vfDo(s, "DELETE", "/api/cmaf-ingests/"+cr.ID, nil, nil)
		r.Eval(1)
		if dr.Code != 200 {
			r.Violation(fmt.Sprintf("delete-status-%d", dr.Code), det("delete during init upload"))
			return
		}
		time.Sleep(time.Duration(len(eps)+1) * 300 * time.Millisecond)
		done := make(chan int, 1)
		go func() { done <- vfDo(s, "GET", "/api/cmaf-ingests/"+cr.ID+"/step", nil, nil).Code }()
		select {
		case <-done:
		case <-time.After(20 * time.Second):
			r.Violation("step-request-never-returned-on-ended-session", det("after delete during init upload"))
			return
		}
		time.Sleep(time.Duration(len(eps)+1) * 300 * time.Millisecond)
		for _, p := range rc.snapshot() {
			if !(bytes.Contains(p.body, []byte("moov"))) {
				r.Violation("session-continues-after-delete", det("deleted while uploading init segments, but media arrived later: "+p.path))
				return
			}
		}
		r.Class(fmt.Sprintf("%s|%s|delete-during-init", a.Path, kind))
		return
	}
	// inits first
	if !rc.waitFor(func(l []vfPut) bool { return len(l) >= len(eps) }, 20*time.Second) {
		r.Inconclusive("init-puts-did-not-arrive")
		return
	}
	stepsDone := 0
	for k := 0; k < c.steps; k++ {
		if c.deleteAfter > 0 && k == c.deleteAfter {
			dr := vfDo(s, "DELETE", "/api/cmaf-ingests/"+cr.ID, nil, nil)
			if dr.Code != 200 {
				r.Violation(fmt.Sprintf("delete-status-%d", dr.Code), det(""))
			}
			break
		}
		if c.duration > 0 && k >= wantMedia {
			break // the session has ended by its duration; a further step is not issued (see assumptions)
		}
		done := make(chan int, 1)
		go func() { done <- vfDo(s, "GET", "/api/cmaf-ingests/"+cr.ID+"/step", nil, nil).Code }()
		select {
		case code := <-done:
			if code != 200 {
				r.Violation(fmt.Sprintf("step-status-%d", code), det(fmt.Sprintf("step %d", k)))
				return
			}
		case <-time.After(20 * time.Second):
			r.Violation("step-request-never-returned-on-live-session", det(fmt.Sprintf("step %d of %d (duration %d s => %d media)", k, c.steps, c.duration, wantMedia)))
			return
		}
		stepsDone++
		want := len(eps) * (1 + stepsDone)
		if !rc.waitFor(func(l []vfPut) bool { return len(l) >= want }, 20*time.Second) {
			got := len(rc.snapshot())
			info := vfDo(s, "GET", "/api/cmaf-ingests/"+cr.ID, nil, nil)
			if c.recvFail == "" && strings.Contains(string(info.Body), "rror") && !strings.Contains(string(info.Body), "too early") {
				// the session reports a failed upload although the scripted receiver accepts everything: a transport problem of the
				// test machine (e.g. no free local port), not a verdict on the sender
				r.Inconclusive("session-reports-upload-error-with-accepting-receiver")
				return
			}
			if c.recvFail == "" {
				r.Violation("step-did-not-deliver-one-segment-per-representation", det(fmt.Sprintf("after step %d: %d PUTs, expected %d (=%d endpoints x (init + %d media))", k, got, want, len(eps), stepsDone)))
				return
			}
			r.Inconclusive("puts-did-not-arrive-with-failing-receiver")
			return
		}
	}
	if c.deleteAfter >= c.steps && c.deleteAfter > 0 {
		// the scripted steps ended before the DELETE came up: it is issued now
		if dr := vfDo(s, "DELETE", "/api/cmaf-ingests/"+cr.ID, nil, nil); dr.Code != 200 {
			r.Violation(fmt.Sprintf("delete-status-%d", dr.Code), det(""))
		}
	}
	// a session that has ended (duration reached or deleted) must stay silent: one further step must return and deliver nothing
	if c.duration > 0 && stepsDone >= wantMedia || c.deleteAfter > 0 {
		before := len(rc.snapshot())
		done := make(chan int, 1)
		go func() { done <- vfDo(s, "GET", "/api/cmaf-ingests/"+cr.ID+"/step", nil, nil).Code }()
		select {
		case code := <-done:
			time.Sleep(120 * time.Millisecond)
			if after := len(rc.snapshot()); after != before {
				what := "duration"
				if c.deleteAfter > 0 {
					what = "delete"
				}
				r.Violation("session-continues-after-"+what, det(fmt.Sprintf("a further step (status %d) delivered %d more PUTs", code, after-before)))
				return
			}
		case <-time.After(20 * time.Second):
			r.Violation("step-request-never-returned-on-ended-session", det(""))
			return
		}
	}
	if c.idleMS > 0 {
		before := len(rc.snapshot())
		time.Sleep(time.Duration(c.idleMS) * time.Millisecond)
		if after := len(rc.snapshot()); after != before {
			r.Violation("step-mode-session-sent-without-a-step", det(fmt.Sprintf("%d further PUTs arrived while the session was left alone for %d ms", after-before, c.idleMS)))
			return
		}
	}
	time.Sleep(30 * time.Millisecond) // let stragglers (duplicates, extra segments) arrive
	log := rc.snapshot()
	// after the end: nothing further (duration / delete): one more wait
	if c.duration > 0 || c.deleteAfter > 0 {
		time.Sleep(150 * time.Millisecond)
		log = rc.snapshot()
	}
	// ---- offline check per endpoint
	byEp := map[string][]vfPut{}
	for _, p := range log {
		m := vfEndpointRe.FindStringSubmatch(p.path)
		if m == nil || m[1] != destName {
			r.Violation("put-to-unexpected-path", det(p.path))
			return
		}
		name := m[2] + m[4]
		byEp[name] = append(byEp[name], p)
		// headers
		if p.hdr.Get("DASH-IF-Ingest") != "1.1" {
			r.Violation("ingest-version-header", det(p.path+" DASH-IF-Ingest="+p.hdr.Get("DASH-IF-Ingest")))
			return
		}
		wantAuth := ""
		if c.user != "" {
			wantAuth = "Basic " + base64.StdEncoding.EncodeToString([]byte(c.user+":"+c.pass))
		}
		if p.hdr.Get("Authorization") != wantAuth {
			r.Violation("credentials-not-as-configured", det(p.path+" Authorization="+p.hdr.Get("Authorization")))
			return
		}
	}
	for _, e := range eps {
		puts := byEp[e.name]
		if len(puts) == 0 {
			r.Violation("endpoint-received-nothing", det(e.name))
			return
		}
		wantCT := map[string]string{"video": "video/mp4", "audio": "audio/mp4", "text": "application/mp4"}[e.ctype]
		for i, p := range puts {
			m := vfEndpointRe.FindStringSubmatch(p.path)
			ext := m[3] + m[6]
			if ext != e.ext {
				r.Violation("wrong-cmaf-extension", det(fmt.Sprintf("%s for %s content", p.path, e.ctype)))
				return
			}
			if p.hdr.Get("Content-Type") != wantCT {
				r.Violation("wrong-content-type", det(fmt.Sprintf("%s Content-Type=%s", p.path, p.hdr.Get("Content-Type"))))
				return
			}
			isInit := bytes.Contains(p.body[:min(len(p.body), 64)], []byte("ftyp")) && bytes.Contains(p.body, []byte("moov"))
			if i == 0 {
				if !isInit {
					r.Violation("first-request-is-not-the-init-segment", det(p.path))
					return
				}
				if !c.streams && m[5] != "init" {
					r.Violation("init-segment-path", det(p.path))
				}
				continue
			}
			if isInit {
				r.Violation("init-segment-sent-again", det(p.path))
				return
			}
			ps, err := ora.ParseSegment(p.body, nil)
			if err != nil {
				r.Violation("media-put-unparseable", det(p.path+": "+err.Error()))
				return
			}
			if !firstFixed && i == 1 {
				if int64(ps.Seq) == snr+firstAlt {
					first = firstAlt
				}
				firstFixed = true
			}
			n := first + int64(i-1)
			if int64(ps.Seq) != snr+n {
				what := "gap-or-wrong-start"
				if i > 1 {
					if pp, err := ora.ParseSegment(puts[i-1].body, nil); err == nil {
						switch {
						case pp.Seq == ps.Seq:
							what = "duplicate"
						case ps.Seq < pp.Seq:
							what = "reordered"
						case ps.Seq > pp.Seq+1:
							what = "gap"
						}
					}
				}
				r.Violation("media-sequence:"+what, det(fmt.Sprintf("endpoint %s request %d carries number %d, expected %d (first after live edge %d)", e.name, i, ps.Seq, snr+n, snr+first)))
				return
			}
			// byte equality with livesim2's own output at the sender's instant (availability time of the segment)
			var su string
			A := a.AvailMS(a.Ref, n, 0, atoMS)
			switch {
			case e.rep == nil:
				su = fmt.Sprintf("%s/%d.m4s", e.name, snr+n)
				if kind[:8] == "timeline" {
					_, vs, _ := a.LiveSeg(a.Ref, n)
					su = fmt.Sprintf("%s/%d.m4s", e.name, vs*1000/a.Ref.Timescale)
				}
			case strings.HasPrefix(kind, "timeline") && e.rep.ContentType == "audio":
				as, _ := a.AudioSegTimes(e.rep, n)
				su = vfMediaURL(e.rep, as)
			case strings.HasPrefix(kind, "timeline"):
				_, st, _ := a.LiveSeg(e.rep, n)
				su = vfMediaURL(e.rep, st)
			default:
				su = vfMediaURL(e.rep, uint64(snr+n))
			}
			if !strings.Contains(c.cfg, "chunkdur") {
				gr := vfGet(s, vfURL(c.cfg, a.Path, su, A))
				r.Eval(1)
				isLast := c.duration > 0 && i == wantMedia
				if gr.Code != 200 {
					r.Violation(fmt.Sprintf("reference-get-status-%d", gr.Code), det(vfURL(c.cfg, a.Path, su, A)))
					return
				}
				if !bytes.Equal(gr.Body, p.body) {
					// the last segment of a session with a duration differs by the lmsg brand only
					gp, e1 := ora.ParseSegment(gr.Body, nil)
					same := e1 == nil && len(gp.Samples) == len(ps.Samples) && gp.Tfdt == ps.Tfdt && gp.Seq == ps.Seq
					if same {
						for j := range gp.Samples {
							if gp.Samples[j] != ps.Samples[j] {
								same = false
							}
						}
					}
					hasLmsg := false
					for _, b := range ps.Brands {
						if b == "lmsg" {
							hasLmsg = true
						}
					}
					if !(same && isLast && hasLmsg) {
						r.Violation("media-body-differs-from-what-livesim2-serves", det(fmt.Sprintf("%s (request %d) vs GET %s: %d vs %d bytes, samples equal=%v, last=%v, lmsg=%v", p.path, i, vfURL(c.cfg, a.Path, su, A), len(p.body), len(gr.Body), same, isLast, hasLmsg)))
						return
					}
				}
				if isLast {
					has := false
					for _, b := range ps.Brands {
						if b == "lmsg" {
							has = true
						}
					}
					if !has {
						r.Violation("last-segment-not-marked-lmsg", det(p.path))
						return
					}
				}
			}
		}
		// counts
		gotMedia := len(puts) - 1
		exp := stepsDone
		if c.duration > 0 {
			exp = wantMedia
			if stepsDone < wantMedia {
				exp = stepsDone
			}
		}
		if gotMedia != exp && c.recvFail == "" {
			sig := "media-count-per-endpoint"
			if c.duration > 0 && gotMedia > exp {
				sig = "session-with-duration-sent-more-segments-than-duration"
			}
			r.Violation(sig, det(fmt.Sprintf("endpoint %s got %d media, expected %d (steps done %d, duration %d s)", e.name, gotMedia, exp, stepsDone, c.duration)))
			return
		}
	}
	sb := "0-3"
	if c.steps > 3 {
		sb = ">3"
	}
	url2 := "per-segment"
	if c.streams {
		url2 = "streams"
	}
	r.Class(fmt.Sprintf("%s|%s|%s|dur=%v|recv=%s|steps=%s|delete=%v", a.Path, kind, url2, c.duration > 0, c.recvFail, sb, c.deleteAfter > 0))
	if ci < 2 {
		var paths []string
		for _, p := range log[:min(len(log), 8)] {
			paths = append(paths, p.path)
		}
		r.Sample(map[string]any{"session": string(jb), "puts": len(log), "first_paths": paths})
	}
}
