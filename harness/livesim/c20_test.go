package app

// C20 – the request limiter enforces its quota exactly, also under concurrency.
// Oracles: (1) executable reference model over seeded sequential Inc sequences in virtual time,
// (2) per-address multiset / pass-iff-within-quota checks over concurrent runs through the real
// middleware and through Inc, (3) porcupine linearizability of recorded Inc/Count histories,
// (4) the race detector (this monitor is built with -race; reports are collected by run.py).

import (
	"fmt"
	"io"
	"net"
	"net/http"
	"net/http/httptest"
	"os"
	"path/filepath"
	"sort"
	"strconv"
	"strings"
	"sync"
	"sync/atomic"
	"syscall"
	"testing"
	"time"

	"github.com/anishathalye/porcupine"
	"verif.local/vlib/rep"
)

type vfLimModel struct {
	max      int
	interval time.Duration
	reset    time.Time
	cnt      map[string]int
	blocks   []*net.IPNet
}

func vfNewLimModel(max int, interval time.Duration, start time.Time, wl string) *vfLimModel {
	m := &vfLimModel{max: max, interval: interval, reset: start, cnt: map[string]int{}}
	if wl != "" {
		for _, b := range strings.Split(wl, ",") {
			_, n, err := net.ParseCIDR(b)
			if err == nil {
				m.blocks = append(m.blocks, n)
			}
		}
	}
	return m
}

func (m *vfLimModel) white(ip string) bool {
	p := net.ParseIP(ip)
	for _, b := range m.blocks {
		if p != nil && b.Contains(p) {
			return true
		}
	}
	return false
}

// step returns the expected (nr,max,ok). ambiguous is true when now-reset == interval exactly
// (the statement does not say whether the interval "has elapsed" at equality): both answers are accepted
// and the model follows the observed one.
func (m *vfLimModel) step(now time.Time, ip string, obsNr int) (nr, max int, ok bool, ambiguous bool) {
	el := now.Sub(m.reset)
	doReset := el > m.interval
	if el == m.interval {
		ambiguous = true
		doReset = obsNr == 1 && m.cnt[ip] != 0 // follow the implementation at exact equality
	}
	if doReset {
		m.cnt = map[string]int{}
		m.reset = now
	}
	m.cnt[ip]++
	nr = m.cnt[ip]
	max = m.max
	ok = nr <= max
	if m.white(ip) {
		ok, max = true, -1
	}
	return
}

var vfC20Addrs = []string{"10.0.0.1", "10.0.0.2", "192.168.5.7", "192.168.6.7", "2001:db8::1", "2001:db8:1::5", "fe80::1",
	"127.0.0.1", "8.8.8.8", "not-an-ip", "10.0.0.1, 10.0.0.9", ""}
var vfC20WL = []string{"", "192.168.5.0/24", "10.0.0.0/8,2001:db8::/48", "0.0.0.0/0", "10.0.0.2/32", "::/0", "127.0.0.3/24,fe80::/10"}

func TestVerifC20(t *testing.T) {
	vfInitLog()
	r := rep.New("C20")
	r.Rule("sequential: one class per (whitelist set, max, address kind, phase: below/at/above quota, reset kind: none/-1ns/0/+1ns/far); " +
		"concurrent: one class per (path: Inc|middleware|porcupine, goroutines, addresses, distinct completion order hash); " +
		"a class counts only if a returned counter / status was compared with the model")
	r.Assume("trusted: Go runtime, net.ParseCIDR, net/http/httptest, porcupine v1.3.0")
	r.Assume("time.Now() inside the middleware is not controlled; middleware runs use a 24h interval so no reset can intervene")
	defer func() { r.Done(); t.Log(r.Summary()) }()

	vfC20Sequential(t, r)
	vfC20ConcurrentInc(t, r)
	vfC20Middleware(t, r)
	vfC20Porcupine(t, r)
	vfC20ReadersDuringResets(t, r)
	if r.NViolations() > 0 {
		t.Fail()
	}
}

func vfAddrKind(a string) string {
	switch {
	case a == "":
		return "empty"
	case strings.Contains(a, ","):
		return "xff-list"
	case net.ParseIP(a) == nil:
		return "garbage"
	case strings.Contains(a, ":"):
		return "v6"
	}
	return "v4"
}

func vfC20Sequential(t *testing.T, r *rep.R) {
	nSeq := r.Pick(300, 6000)
	for si := 0; si < nSeq; si++ {
		rng := r.Rand(int64(1000 + si))
		wl := vfC20WL[rng.Intn(len(vfC20WL))]
		max := []int{0, 1, 2, 3, 5, 17}[rng.Intn(6)]
		interval := []time.Duration{0, 1, time.Millisecond, time.Second, 24 * time.Hour}[rng.Intn(5)]
		start := time.Unix(1_700_000_000, 0).Add(time.Duration(rng.Int63n(1e12)))
		lim, err := NewIPRequestLimiter(max, interval, start, wl, "")
		if err != nil {
			t.Fatalf("NewIPRequestLimiter(%q): %v", wl, err)
		}
		mod := vfNewLimModel(max, interval, start, wl)
		now := start
		nAddr := 1 + rng.Intn(4)
		addrs := make([]string, nAddr)
		for i := range addrs {
			addrs[i] = vfC20Addrs[rng.Intn(len(vfC20Addrs)-1)] // Inc takes any key but ""-key is middleware-only
		}
		nOps := 20 + rng.Intn(80)
		var trace []string
		for k := 0; k < nOps; k++ {
			// choose the next instant: mostly inside the interval, sometimes exactly at the boundaries
			kind := "none"
			switch c := rng.Intn(12); {
			case c == 0:
				now = mod.reset.Add(interval - 1)
				kind = "-1ns"
			case c == 1:
				now = mod.reset.Add(interval)
				kind = "0"
			case c == 2:
				now = mod.reset.Add(interval + 1)
				kind = "+1ns"
			case c == 3:
				now = mod.reset.Add(2*interval + time.Duration(rng.Int63n(1e9)))
				kind = "far"
			default:
				if interval > 0 {
					room := mod.reset.Add(interval).Sub(now)
					if room > 1 {
						now = now.Add(time.Duration(rng.Int63n(int64(room)/2 + 1)))
					}
				}
			}
			if now.Before(mod.reset) {
				now = mod.reset
			}
			ip := addrs[rng.Intn(nAddr)]
			before := mod.cnt[ip]
			nr, mx, ok := lim.Inc(now, ip)
			enr, emx, eok, amb := mod.step(now, ip, nr)
			trace = append(trace, fmt.Sprintf("Inc(+%dns,%s)=%d,%d,%v", now.Sub(start).Nanoseconds(), ip, nr, mx, ok))
			if len(trace) > 12 {
				trace = trace[1:]
			}
			r.Eval(1)
			phase := "below"
			if enr == max {
				phase = "at"
			} else if enr > max {
				phase = "above"
			}
			r.Class(fmt.Sprintf("seq|wl=%s|max=%d|%s|%s|%s|amb=%v", wl, max, vfAddrKind(ip), phase, kind, amb))
			if nr != enr || mx != emx || ok != eok {
				what := "counter"
				if nr == enr && mx == emx {
					what = "pass"
				} else if nr == enr {
					what = "max"
				}
				r.Violation("seq-model-mismatch:"+what+":reset="+kind, map[string]any{
					"whitelist": wl, "max": max, "interval_ns": interval.Nanoseconds(), "last_ops": append([]string{}, trace...),
					"expected": fmt.Sprintf("%d,%d,%v", enr, emx, eok), "counter_before": before})
				// resync the model with the implementation to avoid cascades
				mod.cnt[ip] = nr
			}
			if c := lim.Count(ip); c != mod.cnt[ip] {
				r.Violation("seq-count-mismatch", map[string]any{"ip": ip, "Count": c, "model": mod.cnt[ip], "last_ops": append([]string{}, trace...)})
			}
			if et := lim.EndTime(); !et.Equal(mod.reset.Add(interval)) {
				r.Violation("seq-endtime-mismatch", map[string]any{"EndTime": et.String(), "model": mod.reset.Add(interval).String()})
				mod.reset = et.Add(-interval)
			}
		}
		if si == 0 {
			r.Sample(map[string]any{"kind": "sequential", "whitelist": wl, "max": max, "interval_ns": interval.Nanoseconds(), "last_ops": trace})
		}
	}
}

// concurrent Inc with a fixed instant inside the interval: per address the returned counters must be exactly 1..k
func vfC20ConcurrentInc(t *testing.T, r *rep.R) {
	rounds := r.Pick(150, 3000)
	for ri := 0; ri < rounds; ri++ {
		rng := r.Rand(int64(50000 + ri))
		G := 2 + rng.Intn(31)
		nAddr := 1 + rng.Intn(3)
		per := 1 + rng.Intn(12)
		max := 1 + rng.Intn(G*per/nAddr+2)
		wl := ""
		if rng.Intn(4) == 0 {
			wl = "10.0.0.2/32"
		}
		start := time.Unix(1_700_000_000, 0)
		lim, _ := NewIPRequestLimiter(max, time.Hour, start, wl, "")
		type res struct {
			ip     string
			nr, mx int
			ok     bool
		}
		out := make([][]res, G)
		var wg sync.WaitGroup
		gate := make(chan struct{})
		var order int64
		var orderHash uint64
		for g := 0; g < G; g++ {
			wg.Add(1)
			go func(g int) {
				defer wg.Done()
				<-gate
				for k := 0; k < per; k++ {
					ip := vfC20Addrs[(g+k)%nAddr]
					nr, mx, ok := lim.Inc(start.Add(time.Duration(g*per+k)), ip)
					out[g] = append(out[g], res{ip, nr, mx, ok})
					o := atomic.AddInt64(&order, 1)
					atomic.AddUint64(&orderHash, uint64(o)*uint64(g*131+k+7))
					if k%3 == 0 {
						_ = lim.Count(ip)
					}
				}
			}(g)
		}
		close(gate)
		wg.Wait()
		by := map[string][]res{}
		for _, l := range out {
			for _, x := range l {
				by[x.ip] = append(by[x.ip], x)
			}
		}
		r.Eval(G * per)
		r.Class(fmt.Sprintf("conc-inc|G=%d|addr=%d|order=%x", G, nAddr, orderHash%4096))
		for ip, l := range by {
			nrs := make([]int, len(l))
			passed := 0
			for i, x := range l {
				nrs[i] = x.nr
				white := wl != "" && ip == "10.0.0.2"
				wantOK := x.nr <= max || white
				if x.ok != wantOK {
					r.Violation("conc-inc-pass-mismatch", map[string]any{"ip": ip, "nr": x.nr, "max": max, "ok": x.ok, "G": G})
				}
				if x.ok {
					passed++
				}
			}
			sort.Ints(nrs)
			for i, n := range nrs {
				if n != i+1 {
					r.Violation("conc-inc-counter-not-1..k", map[string]any{"ip": ip, "sorted_counters": nrs, "G": G, "per": per})
					break
				}
			}
			if !(wl != "" && ip == "10.0.0.2") {
				want := len(l)
				if want > max {
					want = max
				}
				if passed != want {
					r.Violation("conc-inc-passed-count", map[string]any{"ip": ip, "passed": passed, "want": want, "requests": len(l), "max": max})
				}
			}
			if c := lim.Count(ip); c != len(l) {
				r.Violation("conc-inc-final-count", map[string]any{"ip": ip, "Count": c, "requests": len(l)})
			}
		}
		if ri == 0 {
			r.Sample(map[string]any{"kind": "concurrent-Inc", "goroutines": G, "per_goroutine": per, "addresses": nAddr, "max": max})
		}
	}
}

var vfHdrRe = func(s string) (int, int, bool) {
	// "<n> (max <m>)"
	var n, m int
	if _, err := fmt.Sscanf(s, "%d (max %d)", &n, &m); err != nil {
		return 0, 0, false
	}
	return n, m, true
}

// through the real middleware as mounted by SetupServer (Livesim2-Requests header, 429)
func vfC20Middleware(t *testing.T, r *rep.R) {
	rounds := r.Pick(12, 120)
	for ri := 0; ri < rounds; ri++ {
		rng := r.Rand(int64(90000 + ri))
		max := 1 + rng.Intn(40)
		wl := vfC20WL[rng.Intn(len(vfC20WL))]
		s := vfNewServer(t, ServerConfig{VodRoot: vfBundledVod(), MaxRequests: max, ReqLimitInt: 24 * 3600, WhiteListBlocks: wl})
		mod := vfNewLimModel(max, 24*time.Hour, time.Now(), wl)
		G := 1 + rng.Intn(24)
		if ri%3 == 0 {
			G = 1 // sequential through the middleware: exact header sequence
		}
		per := 2 + rng.Intn(10)
		type res struct {
			key    string
			code   int
			nr, mx int
			hasHdr bool
		}
		out := make([][]res, G)
		var wg sync.WaitGroup
		gate := make(chan struct{})
		var polls int64
		stop := make(chan struct{})
		// concurrent /reqcount reader (calls Count and EndTime while requests are in flight)
		var pw sync.WaitGroup
		pw.Add(1)
		go func() {
			defer pw.Done()
			for {
				select {
				case <-stop:
					return
				default:
				}
				rr := httptest.NewRecorder()
				req := httptest.NewRequest("GET", "/reqcount", nil)
				req.RemoteAddr = "10.0.0.1:999"
				s.Router.ServeHTTP(rr, req)
				atomic.AddInt64(&polls, 1)
			}
		}()
		for g := 0; g < G; g++ {
			wg.Add(1)
			go func(g int) {
				defer wg.Done()
				<-gate
				lr := r.Rand(int64(ri*1000 + g))
				for k := 0; k < per; k++ {
					a := vfC20Addrs[lr.Intn(len(vfC20Addrs))]
					useXFF := lr.Intn(2) == 0 || net.ParseIP(a) == nil
					req := httptest.NewRequest("GET", "/livesim2/no-such-asset/x.mpd?nowMS=1000", nil)
					key := a
					if a == "" || !useXFF {
						// RemoteAddr path
						ra := "10.0.0.1"
						if net.ParseIP(a) != nil {
							ra = a
						}
						key = net.ParseIP(ra).String()
						if strings.Contains(ra, ":") {
							req.RemoteAddr = "[" + ra + "]:4711"
						} else {
							req.RemoteAddr = ra + ":4711"
						}
					} else {
						req.Header.Set("X-Forwarded-For", a)
						req.RemoteAddr = "9.9.9.9:1"
					}
					rr := httptest.NewRecorder()
					s.Router.ServeHTTP(rr, req)
					h := rr.Header().Get("Livesim2-Requests")
					n, m, ok := vfHdrRe(h)
					out[g] = append(out[g], res{key, rr.Code, n, m, ok})
				}
			}(g)
		}
		close(gate)
		wg.Wait()
		close(stop)
		pw.Wait()
		by := map[string][]res{}
		for _, l := range out {
			for _, x := range l {
				by[x.key] = append(by[x.key], x)
			}
		}
		r.Eval(G * per)
		r.Add("reqcount_polls", polls)
		r.Class(fmt.Sprintf("mw|G=%d|wl=%s|keys=%d", G, wl, len(by)))
		for key, l := range by {
			white := mod.white(key)
			nrs := []int{}
			passed := 0
			for _, x := range l {
				if !x.hasHdr {
					r.Violation("mw-missing-header", map[string]any{"key": key, "code": x.code})
					continue
				}
				nrs = append(nrs, x.nr)
				wantMax := max
				if white {
					wantMax = -1
				}
				if x.mx != wantMax {
					r.Violation("mw-max-mismatch", map[string]any{"key": key, "max_hdr": x.mx, "want": wantMax, "whitelist": wl})
				}
				limited := x.code == http.StatusTooManyRequests
				wantLimited := !white && x.nr > max
				if limited != wantLimited {
					r.Violation("mw-pass-mismatch", map[string]any{"key": key, "counter": x.nr, "max": max, "status": x.code, "whitelisted": white, "whitelist": wl})
				}
				if !limited {
					passed++
					if x.code != http.StatusNotFound { // passed on to the livesim handler: unknown asset
						r.Violation("mw-unexpected-status", map[string]any{"key": key, "status": x.code})
					}
				}
			}
			sort.Ints(nrs)
			for i, n := range nrs {
				if n != i+1 {
					r.Violation("mw-counter-not-1..k", map[string]any{"key": key, "sorted_counters": nrs, "G": G})
					break
				}
			}
			if !white {
				want := len(l)
				if want > max {
					want = max
				}
				if passed != want {
					r.Violation("mw-passed-count", map[string]any{"key": key, "passed": passed, "want": want, "max": max})
				}
			}
			r.Class(fmt.Sprintf("mw-key|%s|white=%v|over=%v", vfAddrKind(key), white, len(l) > max))
		}
		if ri == 0 {
			k0 := ""
			for k := range by {
				k0 = k
				break
			}
			r.Sample(map[string]any{"kind": "middleware", "goroutines": G, "max": max, "whitelist": wl, "example_key": k0, "responses_for_key": fmt.Sprint(by[k0])})
		}
	}
}

type vfLimIn struct {
	op  string // inc | count
	ip  string
	now int64 // ns since start
}
type vfLimOut struct {
	nr, mx int
	ok     bool
}

// vfSlowLogPipe creates a named pipe and a reader that accepts one writer at a time after a short pause.
func vfSlowLogPipe(t *testing.T, k int) (path string, stop func()) {
	path = filepath.Join(t.TempDir(), fmt.Sprintf("reqlog%d.fifo", k))
	if err := syscall.Mkfifo(path, 0600); err != nil {
		return "", func() {}
	}
	var stopped int32
	done := make(chan struct{})
	go func() {
		defer close(done)
		for atomic.LoadInt32(&stopped) == 0 {
			time.Sleep(300 * time.Microsecond)
			f, err := os.OpenFile(path, os.O_RDONLY, 0) // blocks until a writer opens
			if err != nil {
				return
			}
			_, _ = io.Copy(io.Discard, f)
			f.Close()
		}
	}()
	return path, func() {
		atomic.StoreInt32(&stopped, 1)
		// release a reader that waits for a writer
		for i := 0; i < 200; i++ {
			if f, err := os.OpenFile(path, os.O_WRONLY|syscall.O_NONBLOCK, 0); err == nil {
				f.Close()
			}
			select {
			case <-done:
				return
			case <-time.After(time.Millisecond):
			}
		}
	}
}

// porcupine: whole-state sequential model, short histories that may cross interval boundaries
func vfC20Porcupine(t *testing.T, r *rep.R) {
	nHist := r.Pick(300, 12000)
	start := time.Unix(1_700_000_000, 0)
	for hi := 0; hi < nHist; hi++ {
		rng := r.Rand(int64(200000 + hi))
		max := 1 + rng.Intn(4)
		interval := time.Duration(50+rng.Intn(100)) * time.Nanosecond
		if hi%2 == 0 {
			interval = time.Hour // no resets: quota exactness under concurrency
		}
		logFile := ""
		stopLog := func() {}
		if hi%4 == 1 {
			// a slow log device (named pipe whose reader takes its time): the counters are dumped to it at every interval reset
			logFile, stopLog = vfSlowLogPipe(t, hi)
		}
		lim, _ := NewIPRequestLimiter(max, interval, start, "", logFile)
		G := 2 + rng.Intn(4)
		per := 2 + rng.Intn(3)
		type st struct {
			reset int64
			cnt   string // "ip=n;ip=n" sorted
		}
		enc := func(m map[string]int) string {
			ks := make([]string, 0, len(m))
			for k := range m {
				ks = append(ks, k)
			}
			sort.Strings(ks)
			var b strings.Builder
			for _, k := range ks {
				b.WriteString(k + "=" + strconv.Itoa(m[k]) + ";")
			}
			return b.String()
		}
		dec := func(s string) map[string]int {
			m := map[string]int{}
			for _, kv := range strings.Split(s, ";") {
				if kv == "" {
					continue
				}
				i := strings.LastIndex(kv, "=")
				n, _ := strconv.Atoi(kv[i+1:])
				m[kv[:i]] = n
			}
			return m
		}
		model := porcupine.Model{
			Init: func() any { return st{0, ""} },
			Step: func(state, in, out any) (bool, any) {
				s := state.(st)
				i := in.(vfLimIn)
				o := out.(vfLimOut)
				m := dec(s.cnt)
				if i.op == "count" {
					return o.nr == m[i.ip], s
				}
				el := i.now - s.reset
				// at el == interval both are accepted (see sequential part); choose by observation
				if el > int64(interval) || (el == int64(interval) && o.nr == 1 && m[i.ip] != 0) {
					m = map[string]int{}
					s.reset = i.now
				}
				m[i.ip]++
				ok := o.nr == m[i.ip] && o.mx == max && o.ok == (o.nr <= max)
				return ok, st{s.reset, enc(m)}
			},
			DescribeOperation: func(in, out any) string {
				i := in.(vfLimIn)
				o := out.(vfLimOut)
				return fmt.Sprintf("%s(%s@%d)->%d,%v", i.op, i.ip, i.now, o.nr, o.ok)
			},
		}
		var mu sync.Mutex
		var ops []porcupine.Operation
		var wg sync.WaitGroup
		gate := make(chan struct{})
		t0 := time.Now()
		for g := 0; g < G; g++ {
			wg.Add(1)
			go func(g int) {
				defer wg.Done()
				lr := r.Rand(int64(hi*100 + g + 7))
				<-gate
				for k := 0; k < per; k++ {
					in := vfLimIn{op: "inc", ip: vfC20Addrs[lr.Intn(2)], now: int64(lr.Intn(400))}
					if lr.Intn(4) == 0 {
						in.op = "count"
					}
					call := time.Since(t0).Nanoseconds()
					var o vfLimOut
					if in.op == "inc" {
						o.nr, o.mx, o.ok = lim.Inc(start.Add(time.Duration(in.now)), in.ip)
					} else {
						o.nr = lim.Count(in.ip)
					}
					ret := time.Since(t0).Nanoseconds()
					mu.Lock()
					ops = append(ops, porcupine.Operation{ClientId: g, Input: in, Call: call, Output: o, Return: ret})
					mu.Unlock()
				}
			}(g)
		}
		close(gate)
		wg.Wait()
		res, info := porcupine.CheckOperationsVerbose(model, ops, 20*time.Second)
		r.Eval(len(ops))
		// distinct history shape: sequence of (client) in return order
		sort.Slice(ops, func(i, j int) bool { return ops[i].Return < ops[j].Return })
		var sh strings.Builder
		for _, o := range ops {
			sh.WriteString(strconv.Itoa(o.ClientId))
		}
		r.Class(fmt.Sprintf("porc|resets=%v|G=%d|order=%s", interval != time.Hour, G, sh.String()))
		switch res {
		case porcupine.Illegal:
			var d []string
			for _, o := range ops {
				d = append(d, fmt.Sprintf("c%d [%d,%d] %s", o.ClientId, o.Call, o.Return, model.DescribeOperation(o.Input, o.Output)))
			}
			_ = info
			r.Violation("not-linearizable:resets="+strconv.FormatBool(interval != time.Hour), map[string]any{"max": max, "interval_ns": interval.Nanoseconds(), "history": d})
		case porcupine.Unknown:
			r.Inconclusive("porcupine-timeout")
		}
		if hi == 1 {
			var d []string
			for _, o := range ops {
				d = append(d, fmt.Sprintf("c%d [%d,%d] %s", o.ClientId, o.Call, o.Return, model.DescribeOperation(o.Input, o.Output)))
			}
			r.Sample(map[string]any{"kind": "porcupine-history", "result": "linearizable", "history": d})
		}
		stopLog()
	}
}

// Readers of the counter / interval end while Inc crosses interval boundaries (race detector is the oracle;
// additionally EndTime must always be reset+interval for some reset that was installed).
func vfC20ReadersDuringResets(t *testing.T, r *rep.R) {
	rounds := r.Pick(20, 300)
	start := time.Unix(1_700_000_000, 0)
	for ri := 0; ri < rounds; ri++ {
		lim, _ := NewIPRequestLimiter(3, 10*time.Nanosecond, start, "", "")
		var wg sync.WaitGroup
		stop := make(chan struct{})
		var reads int64
		for rd := 0; rd < 2; rd++ {
			wg.Add(1)
			go func() {
				defer wg.Done()
				for {
					select {
					case <-stop:
						return
					default:
					}
					et := lim.EndTime()
					_ = lim.Count("10.0.0.1")
					if et.Before(start) {
						r.Violation("endtime-before-start", map[string]any{"EndTime": et.String()})
					}
					atomic.AddInt64(&reads, 1)
				}
			}()
		}
		for k := 0; k < 400; k++ {
			lim.Inc(start.Add(time.Duration(k*7)), "10.0.0.1")
		}
		close(stop)
		wg.Wait()
		r.Eval(400)
		r.Add("endtime_reads_during_resets", reads)
		r.Class(fmt.Sprintf("readers-during-resets|%d", ri%4))
	}
	// the same through the server: /reqcount while every request resets (interval 0)
	s := vfNewServer(t, ServerConfig{VodRoot: vfBundledVod(), MaxRequests: 5, ReqLimitInt: 0})
	var wg sync.WaitGroup
	stop := make(chan struct{})
	var polls int64
	wg.Add(1)
	go func() {
		defer wg.Done()
		for {
			select {
			case <-stop:
				return
			default:
			}
			rr := httptest.NewRecorder()
			req := httptest.NewRequest("GET", "/reqcount", nil)
			req.RemoteAddr = "10.0.0.1:999"
			s.Router.ServeHTTP(rr, req)
			atomic.AddInt64(&polls, 1)
		}
	}()
	n := r.Pick(300, 3000)
	for k := 0; k < n; k++ {
		rr := httptest.NewRecorder()
		req := httptest.NewRequest("GET", "/livesim2/no-such-asset/x.mpd?nowMS=1000", nil)
		req.RemoteAddr = "10.0.0.1:4711"
		s.Router.ServeHTTP(rr, req)
	}
	close(stop)
	wg.Wait()
	r.Eval(n)
	r.Add("reqcount_polls_during_resets", polls)
	r.Class("server-reqcount-during-resets")
}
