package app

// Shared helpers of the livesim2 monitors (injected into cmd/livesim2/app by overlay).
// Only identifiers that the repository's own tests use for set-up are touched:
// SetupServer, ServerConfig, Server.Router, logging.InitSlog.

import (
	"context"
	"fmt"
	"io"
	"net/http"
	"net/http/httptest"
	"os"
	"strings"
	"sync"
	"testing"

	"github.com/Dash-Industry-Forum/livesim2/pkg/logging"
)

var vfLogOnce sync.Once

func vfRepoRoot() string {
	if r := os.Getenv("VERIF_REPO"); r != "" {
		return r
	}
	return "/repo"
}

func vfBundledVod() string { return vfRepoRoot() + "/cmd/livesim2/app/testdata/assets" }

func vfInitLog() {
	vfLogOnce.Do(func() { _ = logging.InitSlog("error", logging.LogDiscard) })
}

// vfNewServer starts a livesim2 server instance on vodRoot (scan mode unless repDataRoot is set).
func vfNewServer(t testing.TB, cfg ServerConfig) *Server {
	vfInitLog()
	if cfg.LogFormat == "" {
		cfg.LogFormat = logging.LogDiscard
	}
	s, err := SetupServer(context.Background(), &cfg)
	if err != nil {
		t.Fatalf("SetupServer: %v", err)
	}
	return s
}

func vfBundledServer(t testing.TB) *Server {
	return vfNewServer(t, ServerConfig{VodRoot: vfBundledVod()})
}

type vfResp struct {
	Code int
	Hdr  http.Header
	Body []byte
}

func vfDo(s *Server, method, url string, body io.Reader, hdr map[string]string) vfResp {
	rr := httptest.NewRecorder()
	req := httptest.NewRequest(method, url, body)
	for k, v := range hdr {
		req.Header.Set(k, v)
	}
	s.Router.ServeHTTP(rr, req)
	return vfResp{rr.Code, rr.Header(), rr.Body.Bytes()}
}

func vfGet(s *Server, url string) vfResp { return vfDo(s, "GET", url, nil, nil) }

// vfURL builds /livesim2/<cfg>/<asset>/<tail>?nowMS=<t>
func vfURL(cfg, asset, tail string, nowMS int64) string {
	var b strings.Builder
	b.WriteString("/livesim2/")
	if cfg != "" {
		b.WriteString(cfg)
		b.WriteString("/")
	}
	b.WriteString(asset)
	b.WriteString("/")
	b.WriteString(tail)
	fmt.Fprintf(&b, "?nowMS=%d", nowMS)
	return b.String()
}

func vfTrunc(b []byte, n int) string {
	if len(b) > n {
		return string(b[:n]) + "..."
	}
	return string(b)
}
