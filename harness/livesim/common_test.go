package app

// Shared helpers of the livesim2 monitors (injected into cmd/livesim2/app by overlay).
// Only identifiers that the repository's own tests use for set-up are touched:
// SetupServer, ServerConfig, Server.Router, logging.InitSlog.

import (
	"context"
	"fmt"
	"io"
	"net/http"
	"net/http/httptest"
	"os"
	"strings"
	"sync"
	"testing"

	"github.com/Dash-Industry-Forum/livesim2/pkg/logging"
	"verif.local/vlib/ora"
)

var vfLogOnce sync.Once

func vfRepoRoot() string {
	if r := os.Getenv("VERIF_REPO"); r != "" {
		return r
	}
	return "/repo"
}

func vfBundledVod() string { return vfRepoRoot() + "/cmd/livesim2/app/testdata/assets" }

func vfInitLog() {
	vfLogOnce.Do(func() { _ = logging.InitSlog("error", logging.LogDiscard) })
}

// vfNewServer starts a livesim2 server instance on vodRoot (scan mode unless repDataRoot is set).
func vfNewServer(t testing.TB, cfg ServerConfig) *Server {
	vfInitLog()
	if cfg.LogFormat == "" {
		cfg.LogFormat = logging.LogDiscard
	}
	s, err := SetupServer(context.Background(), &cfg)
	if err != nil {
		t.Fatalf("SetupServer: %v", err)
	}
	return s
}

func vfBundledServer(t testing.TB) *Server {
	return vfNewServer(t, ServerConfig{VodRoot: vfBundledVod()})
}

type vfResp struct {
	Code int
	Hdr  http.Header
	Body []byte
}

func vfDo(s *Server, method, url string, body io.Reader, hdr map[string]string) vfResp {
	rr := httptest.NewRecorder()
	req := httptest.NewRequest(method, url, body)
	for k, v := range hdr {
		req.Header.Set(k, v)
	}
	s.Router.ServeHTTP(rr, req)
	return vfResp{rr.Code, rr.Header(), rr.Body.Bytes()}
}

func vfGet(s *Server, url string) vfResp { return vfDo(s, "GET", url, nil, nil) }

// vfURL builds /livesim2/<cfg>/<asset>/<tail>?nowMS=<t>
func vfURL(cfg, asset, tail string, nowMS int64) string {
	var b strings.Builder
	b.WriteString("/livesim2/")
	if cfg != "" {
		b.WriteString(cfg)
		b.WriteString("/")
	}
	b.WriteString(asset)
	b.WriteString("/")
	b.WriteString(tail)
	fmt.Fprintf(&b, "?nowMS=%d", nowMS)
	return b.String()
}

func vfTrunc(b []byte, n int) string {
	if len(b) > n {
		return string(b[:n]) + "..."
	}
	return string(b)
}

// ---- assets ----

type vfAssetRef struct {
	Path, MPD string
	Gen       bool
}

var vfBundledAssets = []vfAssetRef{
	{"testpic_2s", "Manifest.mpd", false},
	{"testpic_2s", "Manifest_thumbs.mpd", false},
	{"testpic_2s", "Manifest_imsc1.mpd", false},
	{"testpic_6s", "Manifest.mpd", false},
	{"testpic_8s", "Manifest.mpd", false},
	{"testpic_alt_seg_dur_stl", "Manifest.mpd", false},
	{"WAVE/vectors/cfhd_sets/12.5_25_50/t3/2022-10-17", "stream.mpd", false},
	{"WAVE/vectors/cfhd_sets/14.985_29.97_59.94/t1/2022-10-17", "stream.mpd", false},
	{"WAVE/vectors/cfhd_sets/14.985_29.97_59.94/t1/2022-10-17", "stream_w_beeps.mpd", false},
	{"bbb_hevc_ac3_8s", "manifest.mpd", false},
}

var vfGenAssets = []vfAssetRef{
	{"gen/irr1001", "gen.mpd", true}, {"gen/one", "gen.mpd", true}, {"gen/sub", "gen.mpd", true},
	{"gen/alt12", "gen.mpd", true}, {"gen/numvar", "gen.mpd", true}, {"gen/s32", "gen.mpd", true},
}

// vfGenServer writes the generated layouts into a fresh temp vod root and starts a server on it.
func vfGenServer(t testing.TB) (*Server, string) {
	root := t.TempDir()
	if err := ora.WriteStandardGenAssets(root, vfBundledVod()); err != nil {
		t.Fatalf("generate assets: %v", err)
	}
	return vfNewServer(t, ServerConfig{VodRoot: root}), root
}

type vfWorld struct {
	Srv   *Server
	Root  string
	Ref   vfAssetRef
	Asset *ora.Asset
}

// vfWorlds loads the truth tables of all bundled and generated assets and the two servers that serve them.
func vfWorlds(t testing.TB, keepData bool) []vfWorld {
	bs := vfBundledServer(t)
	gs, groot := vfGenServer(t)
	var out []vfWorld
	for _, ar := range append(append([]vfAssetRef{}, vfBundledAssets...), vfGenAssets...) {
		w := vfWorld{Srv: bs, Root: vfBundledVod(), Ref: ar}
		if ar.Gen {
			w.Srv, w.Root = gs, groot
		}
		a, err := ora.LoadAsset(w.Root, ar.Path, ar.MPD, keepData)
		if err != nil {
			t.Fatalf("oracle cannot load %s/%s: %v", ar.Path, ar.MPD, err)
		}
		w.Asset = a
		out = append(out, w)
	}
	return out
}

// vfMediaURL fills the VoD media template of a representation with a number or time value.
func vfMediaURL(r *ora.Rep, v uint64) string {
	s := strings.ReplaceAll(r.MediaTmpl, "$Number$", fmt.Sprint(v))
	return strings.ReplaceAll(s, "$Time$", fmt.Sprint(v))
}

func readFile(p string) ([]byte, error) { return os.ReadFile(p) }
