package app

// Shared helpers of the livesim2 monitors (injected into cmd/livesim2/app by overlay).
// Only identifiers that the repository's own tests use for set-up are touched:
// SetupServer, ServerConfig, Server.Router, logging.InitSlog.

import (
	"context"
	"fmt"
	"hash/fnv"
	"io"
	"math/rand"
	"net/http"
	"net/http/httptest"
	"os"
	"strings"
	"sync"
	"sync/atomic"
	"testing"
	"time"
	"verif.local/vlib/rep"

	"github.com/Dash-Industry-Forum/livesim2/pkg/logging"
	"verif.local/vlib/ora"
)

var vfLogOnce sync.Once

func vfRepoRoot() string {
	if r := os.Getenv("VERIF_REPO"); r != "" {
		return r
	}
	return "/repo"
}

func vfBundledVod() string { return vfRepoRoot() + "/cmd/livesim2/app/testdata/assets" }

func vfInitLog() {
	vfLogOnce.Do(func() { _ = logging.InitSlog("error", logging.LogDiscard) })
}

// vfNewServer starts a livesim2 server instance on vodRoot (scan mode unless repDataRoot is set).
func vfNewServer(t testing.TB, cfg ServerConfig) *Server {
	vfInitLog()
	if cfg.LogFormat == "" {
		cfg.LogFormat = logging.LogDiscard
	}
	s, err := SetupServer(context.Background(), &cfg)
	if err != nil {
		t.Fatalf("SetupServer: %v", err)
	}
	return s
}

func vfBundledServer(t testing.TB) *Server {
	return vfNewServer(t, ServerConfig{VodRoot: vfBundledVod()})
}

type vfResp struct {
	Code int
	Hdr  http.Header
	Body []byte
}

func vfDo(s *Server, method, url string, body io.Reader, hdr map[string]string) vfResp {
	rr := httptest.NewRecorder()
	req := httptest.NewRequest(method, url, body)
	for k, v := range hdr {
		req.Header.Set(k, v)
	}
	s.Router.ServeHTTP(rr, req)
	return vfResp{rr.Code, rr.Header(), rr.Body.Bytes()}
}

func vfGet(s *Server, url string) vfResp { return vfDo(s, "GET", url, nil, nil) }

// vfURL builds /livesim2/<cfg>/<asset>/<tail>?nowMS=<t>
func vfURL(cfg, asset, tail string, nowMS int64) string {
	var b strings.Builder
	b.WriteString("/livesim2/")
	if cfg != "" {
		b.WriteString(cfg)
		b.WriteString("/")
	}
	b.WriteString(asset)
	b.WriteString("/")
	b.WriteString(tail)
	fmt.Fprintf(&b, "?nowMS=%d", nowMS)
	return b.String()
}

func vfTrunc(b []byte, n int) string {
	if len(b) > n {
		return string(b[:n]) + "..."
	}
	return string(b)
}

// ---- assets ----

type vfAssetRef struct {
	Path, MPD string
	Gen       bool
}

var vfBundledAssets = []vfAssetRef{
	{"testpic_2s", "Manifest.mpd", false},
	{"testpic_2s", "Manifest_thumbs.mpd", false},
	{"testpic_2s", "Manifest_imsc1.mpd", false},
	{"testpic_6s", "Manifest.mpd", false},
	{"testpic_8s", "Manifest.mpd", false},
	{"testpic_alt_seg_dur_stl", "Manifest.mpd", false},
	{"WAVE/vectors/cfhd_sets/12.5_25_50/t3/2022-10-17", "stream.mpd", false},
	{"WAVE/vectors/cfhd_sets/14.985_29.97_59.94/t1/2022-10-17", "stream.mpd", false},
	{"WAVE/vectors/cfhd_sets/14.985_29.97_59.94/t1/2022-10-17", "stream_w_beeps.mpd", false},
	{"bbb_hevc_ac3_8s", "manifest.mpd", false},
}

var vfGenAssets = []vfAssetRef{
	{"gen/irr1001", "gen.mpd", true}, {"gen/one", "gen.mpd", true}, {"gen/sub", "gen.mpd", true},
	{"gen/alt12", "gen.mpd", true}, {"gen/numvar", "gen.mpd", true}, {"gen/s32", "gen.mpd", true}, {"gen/ttml", "gen.mpd", true},
}

// vfGenServer writes the generated layouts into a fresh temp vod root and starts a server on it.
func vfGenServer(t testing.TB) (*Server, string) {
	root := t.TempDir()
	if err := ora.WriteStandardGenAssets(root, vfBundledVod()); err != nil {
		t.Fatalf("generate assets: %v", err)
	}
	return vfNewServer(t, ServerConfig{VodRoot: root}), root
}

type vfWorld struct {
	Srv   *Server
	Root  string
	Ref   vfAssetRef
	Asset *ora.Asset
}

// vfWorlds loads the truth tables of all bundled and generated assets and the two servers that serve them.
func vfWorlds(t testing.TB, keepData bool) []vfWorld {
	bs := vfBundledServer(t)
	gs, groot := vfGenServer(t)
	var out []vfWorld
	for _, ar := range append(append([]vfAssetRef{}, vfBundledAssets...), vfGenAssets...) {
		w := vfWorld{Srv: bs, Root: vfBundledVod(), Ref: ar}
		if ar.Gen {
			w.Srv, w.Root = gs, groot
		}
		a, err := ora.LoadAsset(w.Root, ar.Path, ar.MPD, keepData)
		if err != nil {
			t.Fatalf("oracle cannot load %s/%s: %v", ar.Path, ar.MPD, err)
		}
		w.Asset = a
		out = append(out, w)
	}
	return out
}

// vfMediaURL fills the VoD media template of a representation with a number or time value.
func vfMediaURL(r *ora.Rep, v uint64) string {
	s := strings.ReplaceAll(r.MediaTmpl, "$Number$", fmt.Sprint(v))
	return strings.ReplaceAll(s, "$Time$", fmt.Sprint(v))
}

func readFile(p string) ([]byte, error) { return os.ReadFile(p) }

// ---- request corpus shared by C07 and C15 ----

type vfReq struct {
	Method string
	URL    string
	Body   string
	Kind   string
}

// vfCorpus draws (url, nowMS) pairs over all request kinds of the livesim2 server for the given worlds.
// Only requests whose answer is defined by (URL, time) are included (no wall-clock dependent pages).
func vfCorpus(worlds []vfWorld, rng *rand.Rand, perWorld int, gen bool) []vfReq {
	var out []vfReq
	add := func(kind, u string) { out = append(out, vfReq{"GET", u, "", kind}) }
	for _, w := range worlds {
		if w.Ref.Gen != gen {
			continue
		}
		a := w.Asset
		if a.Ref.ContentType != "video" {
			continue
		}
		N := int64(a.Ref.N())
		segMS := a.LoopMS / N
		for i := 0; i < perWorld; i++ {
			n := rng.Int63n(5*N) + N
			if i%7 == 0 {
				n += 100000 * N
			}
			mode := []string{"", "segtimeline_1", "segtimelinenr_1"}[rng.Intn(3)]
			extra := []string{"", "tsbd_7", "snr_3", "start_1000", "ato_" + fmt.Sprintf("%d.%03d", (segMS/2)/1000, (segMS/2)%1000), "periods_60", "scte35_2", "timesubsstpp_en", "timesubswvtt_sv", "patch_60", "utc_direct-ntp", "mup_3", "spd_6"}[rng.Intn(13)]
			if extra == "periods_60" && 60000%segMS != 0 {
				extra = ""
			}
			startS := int64(0)
			if extra == "start_1000" {
				startS = 1000
			}
			cfg := mode
			if extra != "" {
				if cfg != "" {
					cfg += "/"
				}
				cfg += extra
			}
			atoMS := int64(0)
			if strings.HasPrefix(extra, "ato_") {
				atoMS = segMS / 2
			}
			snr := int64(0)
			if extra == "snr_3" {
				snr = 3
			}
			tm := a.AvailMS(a.Ref, n, startS, atoMS) + rng.Int63n(segMS)
			add("mpd", vfURL(cfg, w.Ref.Path, w.Ref.MPD, tm))
			rp := a.Reps[a.RepIDs[rng.Intn(len(a.RepIDs))]]
			if rp.ContentType != "image" {
				add("init", vfURL(cfg, w.Ref.Path, rp.InitPath, tm))
			}
			var mu string
			switch {
			case rp.ContentType == "image" || mode != "segtimeline_1":
				mu = vfMediaURL(rp, uint64(snr+n))
			case rp.ContentType == "audio":
				if rp.SampleDur == 0 {
					continue
				}
				as, _ := a.AudioSegTimes(rp, n)
				mu = vfMediaURL(rp, as)
			default:
				if lt, ok := a.LoopTicks(rp); !ok || lt != rp.Dur() {
					continue
				}
				_, s, _ := a.LiveSeg(rp, n)
				mu = vfMediaURL(rp, s)
			}
			add("media-"+rp.ContentType, vfURL(cfg, w.Ref.Path, mu, tm+40))
			if i%4 == 0 { // error-ish and edge answers are part of the function too
				add("media-too-early", vfURL(cfg, w.Ref.Path, vfMediaURL(a.Ref, uint64(snr+n+50)), tm))
				add("media-gone", vfURL(mode, w.Ref.Path, vfMediaURL(a.Ref, 1), tm+900_000))
				add("unknown-rep", vfURL(cfg, w.Ref.Path, "nosuch/1.m4s", tm))
			}
			if extra == "timesubsstpp_en" && mode != "segtimeline_1" {
				add("timesubs", vfURL(cfg, w.Ref.Path, fmt.Sprintf("timestpp-en/%d.m4s", n), tm+40))
			}
			if extra == "timesubswvtt_sv" && mode != "segtimeline_1" {
				add("timesubs", vfURL(cfg, w.Ref.Path, fmt.Sprintf("timewvtt-sv/%d.m4s", n), tm+40))
			}
			if extra == "patch_60" && mode != "" {
				pt := time.UnixMilli(a.AvailMS(a.Ref, n-1, 0, 0)).UTC().Format("2006-01-02T15:04:05.999Z")
				add("patch", fmt.Sprintf("/patch/livesim2/%s/%s/%s?publishTime=%s&nowMS=%d", cfg, w.Ref.Path, strings.Replace(w.Ref.MPD, ".mpd", ".mpp", 1), strings.ReplaceAll(pt, ":", "%3A"), tm))
			}
			// DRM and chunked (request after the segment end, so no pacing sleep is involved)
			if i%5 == 0 && !w.Ref.Gen && (strings.HasPrefix(rp.Codecs, "avc") || strings.HasPrefix(rp.Codecs, "mp4a.40")) && mode != "segtimeline_1" {
				sch := []string{"eccp_cenc", "eccp_cbcs"}[rng.Intn(2)]
				add("drm-init", vfURL(sch, w.Ref.Path, rp.InitPath, tm))
				add("drm-media", vfURL(sch, w.Ref.Path, vfMediaURL(rp, uint64(n)), a.AvailMS(a.Ref, n, 0, 0)+60))
				add("drm-mpd", vfURL(sch, w.Ref.Path, w.Ref.MPD, tm))
			}
			if i%6 == 0 && rp.ContentType == "video" {
				ato := segMS / 2
				add("chunked", vfURL(fmt.Sprintf("ato_%d.%03d/chunkdur_0.5", ato/1000, ato%1000), w.Ref.Path, vfMediaURL(rp, uint64(n)), a.AvailMS(a.Ref, n, 0, 0)+2*segMS))
			}
		}
	}
	return out
}

func vfHash(b []byte) uint64 { h := fnv.New64a(); h.Write(b); return h.Sum64() }

type vfAns struct {
	code int
	ct   string
	hash uint64
	n    int
}

func vfAnswer(s *Server, q vfReq) vfAns {
	r := vfGet(s, q.URL)
	return vfAns{r.Code, r.Hdr.Get("Content-Type"), vfHash(r.Body), len(r.Body)}
}

// vfReask is a sample of requests a sequential monitor has already judged (URL, server, body hash of the answer it got). vfReaskAtOnce
// asks for all of them again from several clients at once, interleaved differently per client: every answer must be the one given
// alone. Working memory shared between requests (scratch slices, pooled buffers, package-level tables) shows up here and nowhere else
// in a monitor that otherwise drives one request at a time.
type vfReask struct {
	mu   sync.Mutex
	srv  []*Server
	urls []string
	hash []uint64
	code []int
	max  int
}

func (q *vfReask) add(srv *Server, url string, resp vfResp) {
	q.mu.Lock()
	defer q.mu.Unlock()
	if q.max == 0 {
		q.max = 96
	}
	if len(q.urls) >= q.max {
		// keep a spread: replace a pseudo-random earlier entry now and then
		i := int(vfHash([]byte(url)) % uint64(4*q.max))
		if i >= q.max {
			return
		}
		q.srv[i], q.urls[i], q.hash[i], q.code[i] = srv, url, vfHash(resp.Body), resp.Code
		return
	}
	q.srv, q.urls, q.hash, q.code = append(q.srv, srv), append(q.urls, url), append(q.hash, vfHash(resp.Body)), append(q.code, resp.Code)
}

func vfReaskAtOnce(r *rep.R, q *vfReask, what string) {
	n := len(q.urls)
	if n == 0 {
		return
	}
	var wg sync.WaitGroup
	var bad int32
	for g := 0; g < 8; g++ {
		wg.Add(1)
		go func(g int) {
			defer wg.Done()
			for k := 0; k < n; k++ {
				i := (k*(2*g+1) + g*7) % n
				resp := vfGet(q.srv[i], q.urls[i])
				if resp.Code != q.code[i] || vfHash(resp.Body) != q.hash[i] {
					if atomic.AddInt32(&bad, 1) == 1 {
						r.Violation("asked-by-eight-clients-at-once:answer-differs-from-the-answer-given-alone:"+what, map[string]any{"url": q.urls[i], "status_alone": q.code[i], "status_now": resp.Code, "clients": 8, "requests_in_the_mix": n})
					}
					return
				}
			}
		}(g)
	}
	wg.Wait()
	r.Eval(8 * n)
	if bad == 0 {
		r.Class("asked-by-eight-clients-at-once|" + what)
	}
}
