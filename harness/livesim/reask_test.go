package app

// TestVerifReaskRace – the race detector for the monitors that otherwise drive one request at a time.
// The monitors of C01..C15 are sequential by construction (every request is judged against an oracle), so working memory that is
// shared between requests (a package-level scratch array, a pooled buffer, a memo table written without a lock) is invisible to
// them. This unit is built with -race and attached to those properties: it answers a family of requests that belongs to the property
// (selected with VERIF_REASK_KIND) one at a time, then lets 16 clients ask for the same requests at once, in different orders.
// Every answer must be the one given alone, and every report of the race detector with a repository frame is a violation.

import (
	"fmt"
	"os"
	"strings"
	"sync"
	"sync/atomic"
	"testing"

	"verif.local/vlib/ora"
	"verif.local/vlib/rep"
)

func vfReaskURLs(kind string, thorough bool, shift int64) (srvCfg ServerConfig, urls []string) {
	srvCfg = ServerConfig{VodRoot: vfBundledVod(), DrmCfgFile: vfRepoRoot() + "/pkg/drm/testdata/drm_config_test.json"}
	type as struct {
		path, mpd  string
		vid, aud   string
		segS       int64
		timeFactor int64 // video ticks per second (for $Time$ of whole-second assets)
	}
	assets := []as{{"testpic_2s", "Manifest.mpd", "V300", "A48", 2, 90000}, {"testpic_8s", "Manifest.mpd", "V300", "A48", 8, 90000}, {"testpic_6s", "Manifest.mpd", "V300", "A48", 6, 90000}}
	add := func(f string, a ...any) { urls = append(urls, fmt.Sprintf(f, a...)) }
	span := int64(40)
	if thorough {
		span = 90
	}
	for _, a := range assets {
		base := int64(3600)/a.segS + shift*97 // segment index about one hour after the start
		for k := int64(0); k < span*2/a.segS+2; k++ {
			n := base + k
			now := (n+1)*a.segS*1000 + 50
			switch kind {
			case "scte35":
				for N := 1; N <= 3; N++ {
					add("/livesim2/scte35_%d/%s/%s/%d.m4s?nowMS=%d", N, a.path, a.vid, n, now)
				}
				add("/livesim2/scte35_2/segtimeline_1/%s/%s/%d.m4s?nowMS=%d", a.path, a.vid, n*a.segS*a.timeFactor, now)
			case "timesubs":
				add("/livesim2/timesubsstpp_en,sv/%s/timestpp-sv/%d.m4s?nowMS=%d", a.path, n, now)
				add("/livesim2/timesubsstpp_en/timesubsdur_500/timesubsreg_1/%s/timestpp-en/%d.m4s?nowMS=%d", a.path, n, now)
				add("/livesim2/timesubswvtt_en/%s/timewvtt-en/%d.m4s?nowMS=%d", a.path, n, now)
				add("/livesim2/timesubswvtt_en,sv/timesubsdur_300/snr_3/%s/timewvtt-sv/%d.m4s?nowMS=%d", a.path, n+3, now)
				if k == 0 {
					add("/livesim2/timesubsstpp_en/%s/timestpp-en/init.mp4?nowMS=%d", a.path, now)
					add("/livesim2/timesubswvtt_en/%s/timewvtt-en/init.mp4?nowMS=%d", a.path, now)
					add("/livesim2/timesubswvtt_en/segtimeline_1/%s/%s?nowMS=%d", a.path, a.mpd, now)
				}
			case "statuscode":
				add("/livesim2/statuscode_[{cycle:30,rsq:0,code:404}]/%s/%s/%d.m4s?nowMS=%d", a.path, a.vid, n, now)
				add("/livesim2/statuscode_[{cycle:12,rsq:1,code:503,rep:A48},{cycle:60,rsq:2,code:410}]/%s/%s/%d.m4s?nowMS=%d", a.path, a.aud, n, now+40)
				add("/livesim2/traffic_u5d3,d2u6/%s/bu%d/%s/%d.m4s?nowMS=%d", a.path, k%2, a.vid, n, now)
			case "patterns":
				// fault-injection patterns that differ from request to request (whatever is parsed or remembered per pattern is new each time)
				add("/livesim2/traffic_u%dd%d,d%du%d/%s/bu%d/%s/%d.m4s?nowMS=%d", 2+k%7+shift*10, 1+k%3, 1+k%4, 3+k%5, a.path, k%2, a.vid, n, now)
				add("/livesim2/statuscode_[{cycle:%d,rsq:%d,code:404}]/%s/%s/%d.m4s?nowMS=%d", 10+k%50+shift*60, k%3, a.path, a.vid, n, now)
				add("/livesim2/traffic_u%dd%d/%s/%s?nowMS=%d", 3+k%9+shift*10, 2+k%5, a.path, a.mpd, now)
			case "audio":
				add("/livesim2/%s/%s/%d.m4s?nowMS=%d", a.path, a.aud, n, now+40)
				add("/livesim2/snr_5/start_600/%s/%s/%d.m4s?nowMS=%d", a.path, a.aud, n-600/a.segS+5, now+40)
			case "segments":
				add("/livesim2/%s/%s/%d.m4s?nowMS=%d", a.path, a.vid, n, now)
				add("/livesim2/segtimeline_1/%s/%s/%d.m4s?nowMS=%d", a.path, a.vid, n*a.segS*a.timeFactor, now)
				add("/livesim2/snr_7/start_900/%s/%s/%d.m4s?nowMS=%d", a.path, a.vid, n-900/a.segS+7, now)
			case "availability":
				add("/livesim2/tsbd_20/%s/%s/%d.m4s?nowMS=%d", a.path, a.vid, n, now-60)            // too early
				add("/livesim2/tsbd_20/%s/%s/%d.m4s?nowMS=%d", a.path, a.vid, n, now+40_000)        // gone
				add("/livesim2/tsbd_20/ato_0.500/%s/%s/%d.m4s?nowMS=%d", a.path, a.aud, n, now-400) // available by the offset
			case "mpd":
				for _, c := range []string{"", "segtimeline_1/", "segtimelinenr_1/tsbd_17/", "segtimeline_1/ato_1.000/", "periods_60/", "segtimeline_1/periods_120/tsbd_50/", "patch_60/segtimeline_1/", "stop_3700/segtimeline_1/", "segtimeline_1/start_1000/snr_4/"} {
					if strings.Contains(c, "periods_") && (60%a.segS != 0 || 30%a.segS != 0) {
						continue
					}
					add("/livesim2/%s%s/%s?nowMS=%d", c, a.path, a.mpd, now+k*137)
				}
			case "drm":
				for _, c := range []string{"eccp_cenc", "eccp_cbcs", "drm_EZDRM-1-key-cbcs-test", "drm_EZDRM-2-keys-cbcs-test"} {
					add("/livesim2/%s/%s/%s/%d.m4s?nowMS=%d", c, a.path, a.vid, n, now)
					add("/livesim2/%s/%s/%s/%d.m4s?nowMS=%d", c, a.path, a.aud, n, now+40)
					if k == 0 {
						add("/livesim2/%s/%s/%s/init.mp4?nowMS=%d", c, a.path, a.vid, now)
						add("/livesim2/%s/%s/%s?nowMS=%d", c, a.path, a.mpd, now)
					}
				}
			case "patch":
				pt := (n + 1 - 3) * a.segS // publishTime three segments earlier (whole seconds for these assets)
				add("/patch/livesim2/segtimeline_1/patch_60/%s/%s?publishTime=1970-01-01T%02d%%3A%02d%%3A%02dZ&nowMS=%d", a.path, strings.Replace(a.mpd, ".mpd", ".mpp", 1), pt/3600, pt/60%60, pt%60, now)
				add("/patch/livesim2/segtimelinenr_1/patch_60/tsbd_30/%s/%s?publishTime=1970-01-01T%02d%%3A%02d%%3A%02dZ&nowMS=%d", a.path, strings.Replace(a.mpd, ".mpd", ".mpp", 1), pt/3600, pt/60%60, pt%60, now)
			case "chunked":
				add("/livesim2/ato_%d.000/chunkdur_0.5/%s/%s/%d.m4s?nowMS=%d", a.segS/2, a.path, a.vid, n, now+a.segS*1000)
				add("/livesim2/ato_%d.000/chunkdur_1/%s/%s/%d.m4s?nowMS=%d", a.segS/2, a.path, a.aud, n, now+a.segS*1000)
			}
		}
	}
	return
}

func TestVerifReaskRace(t *testing.T) {
	id := os.Getenv("VERIF_ID")
	kinds := strings.Split(os.Getenv("VERIF_REASK_KIND"), ",")
	r := rep.New(id)
	r.Rule("race unit (-race): case = (request of the families " + strings.Join(kinds, ", ") + " that belong to this property; asked alone, then by 16 clients at once in different orders); class = (family, answer status); counted when the answer given under concurrency was compared with the answer given alone")
	defer func() { r.Done(); t.Log(r.Summary()) }()
	vfInitLog()
	_ = ora.GridCeil
	for _, kind := range kinds {
		cfg, urls := vfReaskURLs(kind, r.Thorough(), 0)
		if len(urls) == 0 {
			r.Inconclusive("reask-unknown-family-" + kind)
			continue
		}
		s := vfNewServer(t, cfg)
		ref := make([]vfAns, len(urls))
		for i, u := range urls {
			ref[i] = vfAnswer(s, vfReq{"GET", u, "", kind})
			r.Eval(1)
			if ref[i].code == 500 && ref[i].n == 0 {
				r.Violation("race-unit:"+kind+":crash", map[string]any{"url": u})
			}
		}
		var wg sync.WaitGroup
		var bad int32
		G := 16
		for g := 0; g < G; g++ {
			wg.Add(1)
			go func(g int) {
				defer wg.Done()
				for k := 0; k < len(urls); k++ {
					i := (k*(2*g+1) + g*11) % len(urls)
					got := vfAnswer(s, vfReq{"GET", urls[i], "", kind})
					if got != ref[i] {
						if atomic.AddInt32(&bad, 1) == 1 {
							r.Violation("race-unit:"+kind+":answer-under-concurrency-differs-from-the-answer-given-alone", map[string]any{"url": urls[i], "alone": fmt.Sprintf("%+v", ref[i]), "at_once": fmt.Sprintf("%+v", got), "clients": G})
						}
						return
					}
				}
			}(g)
		}
		wg.Wait()
		r.Eval(G * len(urls))
		seen := map[int]bool{}
		for i := range urls {
			if !seen[ref[i].code] {
				seen[ref[i].code] = true
				r.Class(fmt.Sprintf("race-unit|%s|status=%d", kind, ref[i].code))
			}
		}
		// requests nobody has asked before, asked for the first time by all clients at once (whatever is parsed, looked up or remembered
		// per request is then created under concurrency); afterwards the same requests one at a time must give the same answers
		_, fresh := vfReaskURLs(kind, r.Thorough(), 1)
		first := make([]vfAns, len(fresh))
		var got [][]vfAns = make([][]vfAns, G)
		for g := 0; g < G; g++ {
			got[g] = make([]vfAns, len(fresh))
			wg.Add(1)
			go func(g int) {
				defer wg.Done()
				for k := 0; k < len(fresh); k++ {
					i := (k + g*len(fresh)/G) % len(fresh) // every client asks for every request, each starting at another place
					got[g][i] = vfAnswer(s, vfReq{"GET", fresh[i], "", kind})
				}
			}(g)
		}
		wg.Wait()
		r.Eval(G * len(fresh))
		for i, u := range fresh {
			first[i] = vfAnswer(s, vfReq{"GET", u, "", kind})
			for g := 0; g < G; g++ {
				if got[g][i] != first[i] {
					r.Violation("race-unit:"+kind+":first-time-answer-under-concurrency-differs-from-the-answer-given-alone", map[string]any{"url": u, "alone_afterwards": fmt.Sprintf("%+v", first[i]), "at_once": fmt.Sprintf("%+v", got[g][i]), "clients": G})
					break
				}
			}
		}
		r.Class(fmt.Sprintf("race-unit|%s|first-time-under-concurrency", kind))
		r.Sample(map[string]any{"kind": "race unit", "family": kind, "requests": len(urls), "clients": G, "first": urls[0], "answer_alone": fmt.Sprintf("%+v", ref[0])})
	}
	if r.NViolations() > 0 {
		t.Fail()
	}
}
