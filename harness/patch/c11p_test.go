package patch

// C11 (library level) – the diff of any two MPD documents that carry the mandatory ids, applied to the first, reproduces the second.

import (
	"fmt"
	"regexp"
	"sort"
	"strings"
	"testing"

	"github.com/beevik/etree"
	"verif.local/vlib/ora"
	"verif.local/vlib/rep"
)

func vfBytes(d *etree.Document) []byte {
	d.Indent(2)
	b, _ := d.WriteToBytes()
	return b
}

// vfTry returns "" when diff+apply reproduces b (or MPDDiff refuses), else a description.
func vfTry(a, b []byte) (failure string, refused bool) {
	defer func() {
		if rec := recover(); rec != nil {
			failure, refused = fmt.Sprintf("mpddiff panic: %v", rec), false
		}
	}()
	doc, _, err := MPDDiff(a, b)
	if err != nil {
		return "", true
	}
	doc.Indent(2)
	pb, _ := doc.WriteToBytes()
	got, _, err := ora.ApplyPatch(a, pb)
	if err != nil {
		return "patch does not apply: " + err.Error() + "\npatch:\n" + string(pb), false
	}
	cb, _ := ora.CanonBytes(b)
	if g := ora.Canon(got.Root()); g != cb {
		return "patched document differs: " + ora.FirstDiff(g, cb) + "\npatch:\n" + string(pb), false
	}
	return "", false
}

var vfSelRe = regexp.MustCompile(`(\d+) elements match (\w+)\[@(\w+)=`)

func vfTagKind(tag string) string {
	switch tag {
	case "Period", "AdaptationSet", "Representation":
		return tag
	}
	return "descriptor"
}

func TestVerifC11P(t *testing.T) {
	r := rep.New("C11")
	r.Rule("library level: case = (generated id-carrying MPD-shaped tree a, edit script of 1..3 edits giving b); class = (sorted edit kinds, outcome applied-equal|refused); counted when MPDDiff(a,b) was applied to a by the independent applier and compared with b")
	defer func() { r.Done(); t.Log(r.Summary()) }()
	edits := vfEdits()
	n := r.Pick(3000, 120000)
	sampled := 0
	for i := 0; i < n; i++ {
		rng := r.Rand(int64(500000 + i))
		da := vfGenMPD(rng)
		a := vfBytes(da)
		db := da.Copy()
		// new publishTime within ttl
		db.Root().SelectAttr("publishTime").Value = "2024-01-01T00:00:20Z"
		k := 1 + rng.Intn(3)
		var kinds []string
		var script []int
		for j := 0; j < k; j++ {
			e := rng.Intn(len(edits))
			if edits[e].apply(db.Root(), rng) {
				kinds = append(kinds, edits[e].kind)
				script = append(script, e)
			}
		}
		sort.Strings(kinds)
		b := vfBytes(db)
		r.Eval(1)
		fail, refused := vfTry(a, b)
		if fail == "" {
			out := "applied-equal"
			if refused {
				out = "refused"
			}
			r.Class(strings.Join(kinds, "+") + "|" + out)
			if sampled < 2 && !refused && len(kinds) > 1 {
				sampled++
				r.Sample(map[string]any{"edits": kinds, "old_mpd": string(a[:min(len(a), 600)])})
			}
			continue
		}
		// signature = failure mechanism (seed independent): which kind of selector failed, or where the patched tree differs
		sig := "other"
		if m := vfSelRe.FindStringSubmatch(fail); m != nil {
			n := "many"
			if m[1] == "0" {
				n = "none"
			}
			sig = "selector-by-" + m[3] + "-matches-" + n + ":" + vfTagKind(m[2])
		} else if strings.Contains(fail, "such children") {
			sig = "positional-index-out-of-range"
		} else if strings.Contains(fail, "missing attribute") || strings.Contains(fail, "existing attribute") {
			sig = "attribute-operation-on-wrong-node"
		} else if strings.HasPrefix(fail, "patched document differs") {
			sig = "patched-tree-differs"
		} else if strings.HasPrefix(fail, "mpddiff panic") {
			sig = "crash"
		}
		_ = script
		what := "patched-document-differs"
		if strings.HasPrefix(fail, "mpddiff panic") {
			what = "panic"
		} else if strings.HasPrefix(fail, "patch does not apply") {
			what = "patch-does-not-apply"
		}
		r.Violation("mpddiff:"+what+":"+sig, map[string]any{"edits": kinds, "failure": fail[:min(len(fail), 900)], "old": string(a[:min(len(a), 1500)]), "new": string(b[:min(len(b), 1500)])})
	}
	_ = fmt.Sprint
	if r.NViolations() > 0 {
		t.Fail()
	}
}
