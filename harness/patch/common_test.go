package patch

// helpers of the MPDDiff monitor (C11, library level)

import (
	"fmt"
	"math/rand"

	"github.com/beevik/etree"
)

type vfEdit struct {
	kind  string
	apply func(root *etree.Element, rng *rand.Rand) bool
}

func vfKids(e *etree.Element, tag string) []*etree.Element {
	var out []*etree.Element
	for _, c := range e.ChildElements() {
		if c.Tag == tag {
			out = append(out, c)
		}
	}
	return out
}

func vfPick(rng *rand.Rand, l []*etree.Element) *etree.Element {
	if len(l) == 0 {
		return nil
	}
	return l[rng.Intn(len(l))]
}

// vfGenMPD builds an id-carrying MPD-shaped tree.
func vfGenMPD(rng *rand.Rand) *etree.Document {
	d := etree.NewDocument()
	d.CreateProcInst("xml", `version="1.0" encoding="UTF-8"`)
	m := d.CreateElement("MPD")
	m.CreateAttr("xmlns", "urn:mpeg:dash:schema:mpd:2011")
	m.CreateAttr("id", "m1")
	m.CreateAttr("type", "dynamic")
	m.CreateAttr("publishTime", "2024-01-01T00:00:10Z")
	m.CreateAttr("availabilityStartTime", "1970-01-01T00:00:00Z")
	pl := m.CreateElement("PatchLocation")
	pl.CreateAttr("ttl", "60")
	pl.SetText("/patch/x.mpp?publishTime=2024-01-01T00%3A00%3A10Z")
	if rng.Intn(2) == 0 {
		m.CreateElement("BaseURL").SetText("http://a.example/")
	}
	np := 1 + rng.Intn(3)
	asID := 1
	for p := 0; p < np; p++ {
		pe := m.CreateElement("Period")
		pe.CreateAttr("id", fmt.Sprintf("P%d", p+3))
		pe.CreateAttr("start", fmt.Sprintf("PT%dS", 60*(p+3)))
		for a := 0; a < 1+rng.Intn(3); a++ {
			as := pe.CreateElement("AdaptationSet")
			as.CreateAttr("id", fmt.Sprint(asID))
			asID++
			as.CreateAttr("contentType", []string{"video", "audio", "text"}[a%3])
			if rng.Intn(2) == 0 {
				as.CreateAttr("lang", "en")
			}
			for k := 0; k < rng.Intn(3); k++ {
				r := as.CreateElement([]string{"Role", "SupplementalProperty"}[rng.Intn(2)])
				r.CreateAttr("schemeIdUri", fmt.Sprintf("urn:x:%d", rng.Intn(3)))
				r.CreateAttr("value", fmt.Sprint(rng.Intn(5)))
			}
			st := as.CreateElement("SegmentTemplate")
			st.CreateAttr("media", "$RepresentationID$/$Time$.m4s")
			st.CreateAttr("timescale", "1000")
			if rng.Intn(3) == 0 {
				st.CreateAttr("presentationTimeOffset", fmt.Sprint(60000*(p+3)))
			}
			tl := st.CreateElement("SegmentTimeline")
			t := 1000 * rng.Intn(50)
			for k := 0; k < rng.Intn(5); k++ {
				s := tl.CreateElement("S")
				if k == 0 {
					s.CreateAttr("t", fmt.Sprint(t))
				}
				s.CreateAttr("d", fmt.Sprint(1000*(1+rng.Intn(3))))
				if rng.Intn(2) == 0 {
					s.CreateAttr("r", fmt.Sprint(1+rng.Intn(9)))
				}
			}
			for k := 0; k < 1+rng.Intn(2); k++ {
				rp := as.CreateElement("Representation")
				rp.CreateAttr("id", fmt.Sprintf("r%d_%d", asID, k))
				rp.CreateAttr("bandwidth", fmt.Sprint(1000*(1+rng.Intn(9))))
			}
		}
	}
	return d
}

func vfAllAS(root *etree.Element) []*etree.Element {
	var out []*etree.Element
	for _, p := range vfKids(root, "Period") {
		out = append(out, vfKids(p, "AdaptationSet")...)
	}
	return out
}

func vfTimelines(root *etree.Element) []*etree.Element {
	var out []*etree.Element
	for _, as := range vfAllAS(root) {
		for _, st := range vfKids(as, "SegmentTemplate") {
			out = append(out, vfKids(st, "SegmentTimeline")...)
		}
	}
	return out
}

var vfCounter int

func vfNewS(rng *rand.Rand) *etree.Element {
	s := etree.NewElement("S")
	s.CreateAttr("d", fmt.Sprint(1000*(1+rng.Intn(4))))
	if rng.Intn(3) == 0 {
		s.CreateAttr("r", fmt.Sprint(1+rng.Intn(5)))
	}
	return s
}

func vfNewAS(rng *rand.Rand) *etree.Element {
	vfCounter++
	as := etree.NewElement("AdaptationSet")
	as.CreateAttr("id", fmt.Sprintf("9%d", vfCounter))
	as.CreateAttr("contentType", "audio")
	st := as.CreateElement("SegmentTemplate")
	st.CreateAttr("timescale", "48000")
	tl := st.CreateElement("SegmentTimeline")
	s := tl.CreateElement("S")
	s.CreateAttr("t", "0")
	s.CreateAttr("d", "96000")
	rp := as.CreateElement("Representation")
	rp.CreateAttr("id", fmt.Sprintf("nr%d", vfCounter))
	rp.CreateAttr("bandwidth", "64000")
	return as
}

func vfEdits() []vfEdit {
	return []vfEdit{
		{"S-append", func(root *etree.Element, rng *rand.Rand) bool {
			tl := vfPick(rng, vfTimelines(root))
			if tl == nil {
				return false
			}
			s := vfNewS(rng)
			if len(tl.ChildElements()) == 0 {
				s.CreateAttr("t", "0")
			}
			tl.AddChild(s)
			return true
		}},
		{"S-bulk-replace", func(root *etree.Element, rng *rand.Rand) bool {
			// a timeline whose length changes a lot at once (window jump, new period): lists of very different lengths
			tl := vfPick(rng, vfTimelines(root))
			if tl == nil {
				return false
			}
			keep := rng.Intn(3)
			for i, c := range tl.ChildElements() {
				if i >= keep {
					tl.RemoveChild(c)
				}
			}
			n := []int{0, 1, 2, 6, 13, 30}[rng.Intn(6)]
			for i := 0; i < n; i++ {
				s := tl.CreateElement("S")
				if len(tl.ChildElements()) == 1 {
					s.CreateAttr("t", fmt.Sprint(1000*rng.Intn(50)))
				}
				s.CreateAttr("d", fmt.Sprint(1000+i*7+rng.Intn(5))) // all different: nothing to merge
			}
			return true
		}},
		{"S-remove-first", func(root *etree.Element, rng *rand.Rand) bool {
			tl := vfPick(rng, vfTimelines(root))
			if tl == nil || len(tl.ChildElements()) < 2 {
				return false
			}
			ss := tl.ChildElements()
			t := ss[0].SelectAttrValue("t", "0")
			tl.RemoveChild(ss[0])
			if ss[1].SelectAttr("t") == nil {
				ss[1].CreateAttr("t", t+"0")
			}
			return true
		}},
		{"S-remove-last", func(root *etree.Element, rng *rand.Rand) bool {
			tl := vfPick(rng, vfTimelines(root))
			if tl == nil || len(tl.ChildElements()) < 1 {
				return false
			}
			ss := tl.ChildElements()
			tl.RemoveChild(ss[len(ss)-1])
			return true
		}},
		{"S-change-r", func(root *etree.Element, rng *rand.Rand) bool {
			tl := vfPick(rng, vfTimelines(root))
			if tl == nil || len(tl.ChildElements()) < 1 {
				return false
			}
			s := vfPick(rng, tl.ChildElements())
			if a := s.SelectAttr("r"); a != nil {
				if rng.Intn(3) == 0 {
					s.RemoveAttr("r")
				} else {
					a.Value = fmt.Sprint(20 + rng.Intn(9))
				}
			} else {
				s.CreateAttr("r", fmt.Sprint(1+rng.Intn(9)))
			}
			return true
		}},
		{"S-insert-middle", func(root *etree.Element, rng *rand.Rand) bool {
			tl := vfPick(rng, vfTimelines(root))
			if tl == nil || len(tl.ChildElements()) < 2 {
				return false
			}
			tl.InsertChildAt(tl.ChildElements()[1].Index(), vfNewS(rng))
			return true
		}},
		{"attr-change", func(root *etree.Element, rng *rand.Rand) bool {
			as := vfPick(rng, vfAllAS(root))
			if as == nil {
				return false
			}
			st := vfPick(rng, vfKids(as, "SegmentTemplate"))
			if st == nil {
				return false
			}
			st.SelectAttr("timescale").Value = fmt.Sprint(1000 + rng.Intn(5))
			return true
		}},
		{"attr-add-remove", func(root *etree.Element, rng *rand.Rand) bool {
			as := vfPick(rng, vfAllAS(root))
			if as == nil {
				return false
			}
			if as.SelectAttr("lang") != nil {
				as.RemoveAttr("lang")
			} else {
				as.CreateAttr("lang", "sv")
			}
			return true
		}},
		{"mpd-attr", func(root *etree.Element, rng *rand.Rand) bool {
			if a := root.SelectAttr("minimumUpdatePeriod"); a != nil {
				root.RemoveAttr("minimumUpdatePeriod")
			} else {
				root.CreateAttr("minimumUpdatePeriod", "PT2S")
			}
			return true
		}},
		{"period-append", func(root *etree.Element, rng *rand.Rand) bool {
			ps := vfKids(root, "Period")
			vfCounter++
			p := etree.NewElement("Period")
			p.CreateAttr("id", fmt.Sprintf("PN%d", vfCounter))
			p.CreateAttr("start", "PT999S")
			p.AddChild(vfNewAS(rng))
			if len(ps) == 0 {
				root.AddChild(p)
			} else {
				root.InsertChildAt(ps[len(ps)-1].Index()+1, p)
			}
			return true
		}},
		{"period-remove-first", func(root *etree.Element, rng *rand.Rand) bool {
			ps := vfKids(root, "Period")
			if len(ps) < 2 {
				return false
			}
			root.RemoveChild(ps[0])
			return true
		}},
		{"as-append", func(root *etree.Element, rng *rand.Rand) bool {
			p := vfPick(rng, vfKids(root, "Period"))
			if p == nil {
				return false
			}
			p.AddChild(vfNewAS(rng))
			return true
		}},
		{"as-remove", func(root *etree.Element, rng *rand.Rand) bool {
			p := vfPick(rng, vfKids(root, "Period"))
			if p == nil || len(vfKids(p, "AdaptationSet")) < 2 {
				return false
			}
			p.RemoveChild(vfPick(rng, vfKids(p, "AdaptationSet")))
			return true
		}},
		{"rep-append", func(root *etree.Element, rng *rand.Rand) bool {
			as := vfPick(rng, vfAllAS(root))
			if as == nil {
				return false
			}
			vfCounter++
			rp := etree.NewElement("Representation")
			rp.CreateAttr("id", fmt.Sprintf("x%d", vfCounter))
			rp.CreateAttr("bandwidth", "5")
			as.AddChild(rp)
			return true
		}},
		{"rep-remove", func(root *etree.Element, rng *rand.Rand) bool {
			as := vfPick(rng, vfAllAS(root))
			if as == nil || len(vfKids(as, "Representation")) < 2 {
				return false
			}
			as.RemoveChild(vfKids(as, "Representation")[0])
			return true
		}},
		{"descriptor-append-new-scheme", func(root *etree.Element, rng *rand.Rand) bool {
			as := vfPick(rng, vfAllAS(root))
			if as == nil {
				return false
			}
			vfCounter++
			d := etree.NewElement("EssentialProperty")
			d.CreateAttr("schemeIdUri", fmt.Sprintf("urn:new:%d", vfCounter))
			d.CreateAttr("value", "1")
			as.InsertChildAt(0, d)
			return true
		}},
		{"descriptor-insert-before-same-name", func(root *etree.Element, rng *rand.Rand) bool {
			for _, as := range vfAllAS(root) {
				for _, name := range []string{"Role", "SupplementalProperty"} {
					if ks := vfKids(as, name); len(ks) > 0 {
						vfCounter++
						d := etree.NewElement(name)
						d.CreateAttr("schemeIdUri", fmt.Sprintf("urn:ins:%d", vfCounter))
						d.CreateAttr("value", "7")
						as.InsertChildAt(ks[0].Index(), d)
						return true
					}
				}
			}
			return false
		}},
		{"descriptor-remove", func(root *etree.Element, rng *rand.Rand) bool {
			for _, as := range vfAllAS(root) {
				if ks := vfKids(as, "Role"); len(ks) > 0 {
					as.RemoveChild(ks[len(ks)-1])
					return true
				}
			}
			return false
		}},
		{"descriptor-change-value", func(root *etree.Element, rng *rand.Rand) bool {
			for _, as := range vfAllAS(root) {
				if ks := vfKids(as, "SupplementalProperty"); len(ks) > 0 {
					ks[0].SelectAttr("value").Value = "changed"
					return true
				}
			}
			return false
		}},
		{"baseurl-text", func(root *etree.Element, rng *rand.Rand) bool {
			if b := root.SelectElement("BaseURL"); b != nil {
				b.SetText("http://b.example/")
				return true
			}
			return false
		}},
	}
}
