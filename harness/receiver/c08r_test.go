package app

// C08 (ingest receiver part) – no upload can crash the receiver or make it spin.
// Well-formed init/media uploads mutated by truncation at every box boundary +-1, hostile size fields, structural damage,
// wrong order and odd paths. Oracle: recovered panic (empty 500 + stack on stderr), process death, per-upload watchdog.

import (
	"bytes"
	"encoding/binary"
	"fmt"
	"net/http/httptest"
	"os"
	"regexp"
	"runtime"
	"strings"
	"testing"
	"time"

	"github.com/go-chi/chi/v5"
	"github.com/go-chi/chi/v5/middleware"
	"verif.local/vlib/rep"
)

func vfBoxBounds(b []byte) []int {
	var out []int
	var walk func(off, end, depth int)
	walk = func(off, end, depth int) {
		for off+8 <= end {
			sz := int(binary.BigEndian.Uint32(b[off:]))
			typ := string(b[off+4 : off+8])
			out = append(out, off, off+4, off+8)
			if sz < 8 || off+sz > end {
				return
			}
			switch typ {
			case "moov", "trak", "mdia", "minf", "stbl", "moof", "traf", "mvex":
				if depth < 6 {
					walk(off+8, off+sz, depth+1)
				}
			}
			off += sz
		}
		out = append(out, end)
	}
	walk(0, len(b), 0)
	return out
}

var vfRecvPanicRe = regexp.MustCompile(`(?s)panic: ([^\n]*)\n.*?-> ([^\n]+)\n`)

func TestVerifC08R(t *testing.T) {
	r := rep.New("C08")
	r.Rule("receiver: case = one upload (path shape x body mutation {truncation at box boundary +-1, size field set to 0/1/7/2^31/2^32-k, type field damaged, box removed, media before init, empty, garbage}); class = (mutation kind, target box, init|media, outcome status class); counted for every upload that was answered")
	defer func() { r.Done(); t.Log(r.Summary()) }()
	vfInitLog()
	rv := vfNewReceiver(t, 30, nil)
	defer rv.close()
	// same handlers behind the Recoverer the production router uses
	router := chi.NewRouter()
	router.Use(middleware.Recoverer)
	router.Mount("/", rv.router)
	var errf *os.File
	var off int64
	if p := os.Getenv("VERIF_ERRFILE"); p != "" {
		errf, _ = os.Open(p)
		if errf != nil {
			st, _ := errf.Stat()
			off = st.Size()
		}
	}
	v := vfMakeTrack(t, "v0", "video", 90000, 180000, 4)
	a := vfMakeTrack(t, "a1", "audio", 48000, 96000, 4)
	type up struct {
		path string
		body []byte
		kind string
	}
	var ups []up
	caseCh := 0
	newCh := func() string { caseCh++; return fmt.Sprintf("h%d", caseCh) }
	mutate := func(kind string, tr *vfTrack, isInit bool, f func(orig []byte) [][]byte) {
		var orig []byte
		if isInit {
			orig = tr.init
		} else {
			orig = tr.segment("x", 5, 0, 2)
		}
		for _, m := range f(orig) {
			ch := newCh()
			what := "init"
			if !isInit {
				what = "media"
				ups = append(ups, up{fmt.Sprintf("%s/%s/init%s", ch, tr.name, tr.ext), tr.init, "setup"})
				ups = append(ups, up{fmt.Sprintf("%s/%s/5%s", ch, tr.name, tr.ext), m, kind + "|" + what})
				// the channel must go on working afterwards
				ups = append(ups, up{fmt.Sprintf("%s/%s/6%s", ch, tr.name, tr.ext), tr.segment(ch, 6, 0, 1), "after|" + kind})
			} else {
				ups = append(ups, up{fmt.Sprintf("%s/%s/init%s", ch, tr.name, tr.ext), m, kind + "|" + what})
				// afterwards a proper init and media upload must be accepted (possibly on a fresh track of the same channel)
				ups = append(ups, up{fmt.Sprintf("%s/%s2/init%s", ch, tr.name, tr.ext), tr.init, "after-init|" + kind})
				ups = append(ups, up{fmt.Sprintf("%s/%s2/5%s", ch, tr.name, tr.ext), tr.segment(ch, 5, 0, 1), "after|" + kind})
			}
		}
	}
	for _, tr := range []*vfTrack{v, a} {
		for _, isInit := range []bool{true, false} {
			mutate("truncate", tr, isInit, func(o []byte) (out [][]byte) {
				seen := map[int]bool{}
				for _, b := range vfBoxBounds(o) {
					for d := -1; d <= 1; d++ {
						x := b + d
						if x >= 0 && x <= len(o) && !seen[x] {
							seen[x] = true
							out = append(out, append([]byte{}, o[:x]...))
						}
					}
				}
				return
			})
			mutate("size-field", tr, isInit, func(o []byte) (out [][]byte) {
				for _, b := range vfBoxBounds(o) {
					if b+8 > len(o) || b%4 != 0 && false {
						continue
					}
					if b+4 <= len(o) && b+8 <= len(o) && isBoxStart(o, b) {
						for _, sz := range []uint32{0, 1, 7, 8, 9, 0x7fffffff, 0x80000000, 0xffffffff, 0xfffffff0, 1 << 24} {
							if bt := string(o[b+4 : b+8]); sz == 1 && !r.Thorough() && (bt == "stts" || bt == "stsc" || bt == "stsz" || bt == "stco" || bt == "ctts" || bt == "stss") {
								// size 1 announces a 64-bit size; the mp4ff decoder then walks an entry count of ~4e9 taken from the following
								// bytes, which terminates but takes about a minute of CPU: only driven in the thorough tier (watchdog 300 s)
								continue
							}
							m := append([]byte{}, o...)
							binary.BigEndian.PutUint32(m[b:], sz)
							out = append(out, m)
							vfMutNote[string(m)] = fmt.Sprintf("size of box %q at offset %d set to %#x", string(o[b+4:b+8]), b, sz)
						}
					}
				}
				return
			})
			mutate("type-field", tr, isInit, func(o []byte) (out [][]byte) {
				for _, b := range vfBoxBounds(o) {
					if isBoxStart(o, b) {
						m := append([]byte{}, o...)
						copy(m[b+4:], "zzzz")
						out = append(out, m)
						m2 := append([]byte{}, o...)
						copy(m2[b+4:], "moov")
						out = append(out, m2)
						m3 := append([]byte{}, o...)
						copy(m3[b+4:], "mdat")
						out = append(out, m3)
					}
				}
				return
			})
			mutate("garbage", tr, isInit, func(o []byte) [][]byte {
				return [][]byte{{}, []byte("x"), []byte("hello world, this is not mp4"), bytes.Repeat([]byte{0}, 64), bytes.Repeat([]byte{0xff}, 64), append([]byte{0, 0, 0, 4}, []byte("text")...), append(append([]byte{}, o...), o...), o[8:]}
			})
		}
	}
	// order and path shapes
	for _, p := range []string{"m1/v0/3.cmfv", "m2/Streams(v0.cmfv)", "m3/v0.cmfv", "v0/3.cmfv", "3.cmfv", "/3.cmfv", "m4/v0/3.cmfx", "m5/v0/abc.cmfv", "m6/v0/-1.cmfv", "m7/a/b/c/d/v0/3.cmfv", "m8/x.mpd", "x.mpd", "m9/../../etc/x.cmfv", "m10/v0/4294967296.cmfv", "m11/Streams().cmfv", "m12/Streams(v0.cmfv", "", "m13//3.cmfv"} {
		ups = append(ups, up{p, v.segment("x", 3, 0, 1), "media-before-init|path"})
		ups = append(ups, up{p, v.init, "init|path"})
	}
	sampled := 0
	for i, u := range ups {
		if !r.Begin(i+1, fmt.Sprintf("%s (%s, %d bytes)", u.path, u.kind, len(u.body))) {
			continue
		}
		type res struct{ code, n int }
		done := make(chan res, 1)
		go func() {
			rr := httptest.NewRecorder()
			req := httptest.NewRequest("PUT", "http://x/upload/"+strings.ReplaceAll(u.path, " ", "%20"), bytes.NewReader(u.body))
			req.Header.Set("Content-Length", fmt.Sprint(len(u.body)))
			router.ServeHTTP(rr, req)
			done <- res{rr.Code, rr.Body.Len()}
		}()
		var out res
		select {
		case out = <-done:
		case <-time.After(time.Duration(r.Pick(30, 300)) * time.Second):
			where := "unclassified"
			{
				buf := make([]byte, 1<<20)
				buf = buf[:runtime.Stack(buf, true)]
				for _, g := range strings.Split(string(buf), "\n\n") {
					if strings.Contains(g, "SegmentHandlerFunc") {
						ls := strings.Split(g, "\n")
						if len(ls) > 1 {
							where = strings.SplitN(strings.TrimSpace(ls[1]), "(", 2)[0]
							for _, l := range ls { // stable: the mp4ff box decoder that is running
								if strings.Contains(l, "mp4ff/mp4.Decode") {
									where = "mp4ff/" + strings.SplitN(l[strings.LastIndex(l, "/")+1:], "(", 2)[0]
									break
								}
							}
						}
					}
				}
			}
			r.Violation("receiver:no-termination@"+where, map[string]any{"path": u.path, "kind": u.kind, "mutation": vfMutNote[string(u.body)], "body_hex_prefix": fmt.Sprintf("%x", u.body[:min(len(u.body), 64)])})
			continue
		}
		r.Eval(1)
		stderr := ""
		if errf != nil {
			st, _ := errf.Stat()
			if st.Size() > off {
				b := make([]byte, st.Size()-off)
				n, _ := errf.ReadAt(b, off)
				off += int64(n)
				stderr = string(b[:n])
			}
		}
		if out.code == 500 && out.n == 0 || strings.Contains(stderr, "panic:") {
			sig := "receiver:crash:unknown-site"
			if m := vfRecvPanicRe.FindStringSubmatch(stderr); m != nil {
				sig = "receiver:crash:" + regexp.MustCompile(`\d+`).ReplaceAllString(m[1], "N") + "@" + strings.TrimPrefix(strings.TrimSpace(m[2]), "github.com/Dash-Industry-Forum/livesim2/")
			}
			r.Violation(sig, map[string]any{"path": u.path, "kind": u.kind, "status": out.code, "body_len": len(u.body), "body_hex_prefix": fmt.Sprintf("%x", u.body[:min(len(u.body), 96)]), "stderr": stderr[:min(len(stderr), 500)]})
			continue
		}
		if strings.HasPrefix(u.kind, "after|") && out.code != 200 {
			r.Violation("receiver:channel-unusable-after-hostile-upload", map[string]any{"path": u.path, "kind": u.kind, "status": out.code})
			continue
		}
		r.Class(fmt.Sprintf("receiver|%s|%dxx", u.kind, out.code/100))
		if sampled < 3 && out.code >= 400 && strings.HasPrefix(u.kind, "size-field") {
			sampled++
			r.Sample(map[string]any{"path": u.path, "kind": u.kind, "status": out.code, "body_hex_prefix": fmt.Sprintf("%x", u.body[:min(len(u.body), 48)])})
		}
	}
	if r.NViolations() > 0 {
		t.Fail()
	}
}

var vfMutNote = map[string]string{}

func isBoxStart(o []byte, b int) bool {
	if b+8 > len(o) {
		return false
	}
	for _, c := range o[b+4 : b+8] {
		if !(c >= 'a' && c <= 'z' || c >= '0' && c <= '9') {
			return false
		}
	}
	sz := int(binary.BigEndian.Uint32(o[b:]))
	return sz >= 8 && b+sz <= len(o)
}
