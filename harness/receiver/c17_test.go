package app

// C17 – ingest receiver: stored media and timeline MPD agree for any arrival order.
// Exhaustive small and seeded large upload interleavings against the real receiver; after every upload (at quiescence,
// known from the recv.processed hook events) the storage tree and manifest_timeline_nr.mpd are checked.

import (
	"bytes"
	"fmt"
	"github.com/Dash-Industry-Forum/livesim2/internal/vhook"
	"os"
	"path/filepath"
	"runtime"
	"strings"
	"sync"
	"sync/atomic"
	"testing"
	"time"

	"verif.local/vlib/ora"
	"verif.local/vlib/rep"
)

type vfUp struct {
	tr  int
	seq uint32
	dup bool
	// broken: the request body is a two-chunk segment that ends in the middle of its second chunk (the connection broke); whatever the
	// receiver answers, a complete upload of the same number follows later in the schedule
	broken bool
}

type vfSched struct {
	name     string
	nTracks  int
	tsbd     uint64
	ups      []vfUp
	lateInit map[int]int // track -> position in ups before which its init is uploaded (default: all inits first)
	startNr  int
	firstSeq uint32
	durOf    func(tr int, seq uint32) uint32 // 0 = nominal
	shape    string
}

// interleavings enumerates all order-preserving interleavings of T tracks x M segments.
func vfInterleavings(T, M int, emit func([]vfUp)) {
	cnt := make([]int, T)
	cur := make([]vfUp, 0, T*M)
	var rec func()
	rec = func() {
		if len(cur) == T*M {
			emit(append([]vfUp{}, cur...))
			return
		}
		for t := 0; t < T; t++ {
			if cnt[t] < M {
				cur = append(cur, vfUp{tr: t, seq: uint32(cnt[t])})
				cnt[t]++
				rec()
				cnt[t]--
				cur = cur[:len(cur)-1]
			}
		}
	}
	rec()
}

func TestVerifC17(t *testing.T) {
	r := rep.New("C17")
	r.FlushEach = true
	r.Rule("case = one upload schedule (T tracks x M segments: exhaustive order-preserving interleavings for small T,M; all permutations for (2,3); seeded schedules with gaps, duplicates, late and lagging tracks, " +
		"unequal durations, windows smaller/larger than the run); after every upload the storage and the timeline MPD are checked; class = (schedule family, T, M, tsbd, observed MPD state {none, listed k numbers}); counted per schedule fully judged")
	r.Assume("quiescence of the per-channel goroutine is known from the verif hook event recv.processed (2 events per single-chunk upload)")
	r.Assume("storage bound: media files per track <= tsbd*timescale/duration + 2 (+1) plus at most the 8 start-up files written before the window is known; what is refuted is growth with the length of the run")
	r.Assume("bounded progress: after the scripted order, window+2 further complete in-order rounds must bring the newest listed number to at least the newest complete round - 1")
	defer func() { r.Done(); t.Log(r.Summary()) }()
	vfInitLog()
	var scheds []vfSched
	// exhaustive small
	for _, tm := range [][2]int{{2, 3}, {2, 4}, {3, 2}, {3, 3}, {2, 5}} {
		T, M := tm[0], tm[1]
		if !r.Thorough() && T*M > 8 {
			// quick: a seeded sample of the larger exhaustive families
			var all [][]vfUp
			vfInterleavings(T, M, func(u []vfUp) { all = append(all, u) })
			rng := r.Rand(int64(T*10 + M))
			for i := 0; i < 60; i++ {
				scheds = append(scheds, vfSched{name: fmt.Sprintf("interleave-%dx%d", T, M), nTracks: T, tsbd: 8, ups: all[rng.Intn(len(all))], shape: "order-preserving"})
			}
			continue
		}
		vfInterleavings(T, M, func(u []vfUp) {
			scheds = append(scheds, vfSched{name: fmt.Sprintf("interleave-%dx%d", T, M), nTracks: T, tsbd: 8, ups: u, shape: "order-preserving"})
		})
	}
	// all permutations of 2x3 (per-track order not preserved)
	{
		items := []vfUp{{0, 0, false, false}, {0, 1, false, false}, {0, 2, false, false}, {1, 0, false, false}, {1, 1, false, false}, {1, 2, false, false}}
		var perm func(k int)
		perm = func(k int) {
			if k == len(items) {
				scheds = append(scheds, vfSched{name: "permutation-2x3", nTracks: 2, tsbd: 8, ups: append([]vfUp{}, items...), shape: "any-order"})
				return
			}
			for i := k; i < len(items); i++ {
				items[k], items[i] = items[i], items[k]
				perm(k + 1)
				items[k], items[i] = items[i], items[k]
			}
		}
		perm(0)
	}
	// a retried (duplicate) upload of number N by track X while track Y has not delivered N yet: every (X, Y) for 3..5 tracks
	for T := 3; T <= 5; T++ {
		for X := 0; X < T; X++ {
			for Y := 0; Y < T; Y++ {
				if X == Y {
					continue
				}
				var ups []vfUp
				for n := uint32(100); n < 103; n++ {
					for tr := 0; tr < T; tr++ {
						ups = append(ups, vfUp{tr: tr, seq: n})
					}
				}
				for tr := 0; tr < T; tr++ {
					if tr != Y {
						ups = append(ups, vfUp{tr: tr, seq: 103})
					}
				}
				ups = append(ups, vfUp{tr: X, seq: 103, dup: true})
				for tr := 0; tr < T; tr++ { // the others go on, Y is still one behind
					if tr != Y {
						ups = append(ups, vfUp{tr: tr, seq: 104})
					}
				}
				ups = append(ups, vfUp{tr: Y, seq: 103}, vfUp{tr: Y, seq: 104})
				for tr := 0; tr < T; tr++ {
					ups = append(ups, vfUp{tr: tr, seq: 105})
				}
				scheds = append(scheds, vfSched{name: fmt.Sprintf("retry-before-last-track-%d", T), nTracks: T, tsbd: 20, ups: ups, firstSeq: 100, shape: "duplicates"})
			}
		}
	}
	// a request that breaks in the middle of its second chunk, followed (at once or a little later) by the complete retry
	for T := 2; T <= 3; T++ {
		for X := 0; X < T; X++ {
			for _, later := range []bool{false, true} {
				var ups []vfUp
				for n := uint32(100); n < 104; n++ {
					for tr := 0; tr < T; tr++ {
						ups = append(ups, vfUp{tr: tr, seq: n})
					}
				}
				for tr := 0; tr < T; tr++ {
					if tr == X {
						ups = append(ups, vfUp{tr: tr, seq: 104, broken: true})
						if !later {
							ups = append(ups, vfUp{tr: tr, seq: 104})
						}
					} else {
						ups = append(ups, vfUp{tr: tr, seq: 104})
					}
				}
				if later {
					ups = append(ups, vfUp{tr: X, seq: 104})
				}
				for n := uint32(105); n < 108; n++ {
					for tr := 0; tr < T; tr++ {
						ups = append(ups, vfUp{tr: tr, seq: n})
					}
				}
				scheds = append(scheds, vfSched{name: fmt.Sprintf("broken-request-then-retry-%d", T), nTracks: T, tsbd: 30, ups: ups, firstSeq: 100, shape: "broken-request"})
			}
		}
	}
	// late retransmissions: numbers far below the window arrive again (a sender that retries old requests); whatever is stored for
	// them must be gone again after the track's next regular upload
	for T := 2; T <= 3; T++ {
		for _, tsbd := range []uint64{4, 12} {
			var ups []vfUp
			win := uint32(tsbd/2 + 2)
			last := 100 + 3*win
			for n := uint32(100); n <= last; n++ {
				for tr := 0; tr < T; tr++ {
					ups = append(ups, vfUp{tr: tr, seq: n})
				}
			}
			for k := uint32(0); k < 3; k++ {
				ups = append(ups, vfUp{tr: int(k) % T, seq: 101 + k, dup: true}, vfUp{tr: 0, seq: 100 + k, dup: true})
			}
			for n := last + 1; n <= last+4; n++ {
				for tr := 0; tr < T; tr++ {
					ups = append(ups, vfUp{tr: tr, seq: n})
				}
			}
			scheds = append(scheds, vfSched{name: fmt.Sprintf("late-retransmission-%d", T), nTracks: T, tsbd: tsbd, ups: ups, firstSeq: 100, shape: "retransmission"})
		}
	}
	// seeded large
	nSeeded := r.Pick(120, 4000)
	for i := 0; i < nSeeded; i++ {
		rng := r.Rand(int64(7000 + i))
		T := 2 + rng.Intn(5)
		M := 6 + rng.Intn(35)
		tsbd := []uint64{2, 4, 8, 30, 120}[rng.Intn(5)]
		s := vfSched{name: "seeded", nTracks: T, tsbd: tsbd, startNr: rng.Intn(2), firstSeq: uint32(rng.Intn(3)) * 100}
		if s.firstSeq < uint32(s.startNr) {
			s.firstSeq = uint32(s.startNr) // a sender configured with startNr never sends a smaller number
		}
		fam := []string{"round-robin-jitter", "lagging-track", "gaps", "duplicates", "late-track", "unequal-durations", "bursty"}[rng.Intn(7)]
		s.shape = fam
		pos := make([]int, T)
		lag := rng.Intn(T)
		for len(s.ups) < T*M {
			tr := rng.Intn(T)
			if fam == "round-robin-jitter" || fam == "unequal-durations" || fam == "late-track" {
				// pick the track that is most behind, with jitter
				best := 0
				for k := 1; k < T; k++ {
					if pos[k] < pos[best] {
						best = k
					}
				}
				tr = best
				if rng.Intn(4) == 0 {
					tr = rng.Intn(T)
				}
			}
			if fam == "lagging-track" && tr == lag && rng.Intn(3) != 0 {
				continue
			}
			if fam == "bursty" {
				n := 1 + rng.Intn(6)
				for k := 0; k < n && pos[tr] < M; k++ {
					s.ups = append(s.ups, vfUp{tr: tr, seq: s.firstSeq + uint32(pos[tr])})
					pos[tr]++
				}
				continue
			}
			if pos[tr] >= M {
				done := true
				for k := 0; k < T; k++ {
					if pos[k] < M {
						done = false
					}
				}
				if done {
					break
				}
				continue
			}
			seq := s.firstSeq + uint32(pos[tr])
			pos[tr]++
			if fam == "gaps" && rng.Intn(9) == 0 && pos[tr] > 2 {
				skip := 1 + rng.Intn(6)
				pos[tr] += skip // missing segments on this track
				continue
			}
			s.ups = append(s.ups, vfUp{tr: tr, seq: seq})
			if fam == "duplicates" && rng.Intn(8) == 0 {
				s.ups = append(s.ups, vfUp{tr: tr, seq: seq, dup: true})
			}
		}
		if fam == "late-track" {
			s.lateInit = map[int]int{T - 1: 2 + rng.Intn(len(s.ups)/2+1)}
			// the late track sends nothing before its init
			var f []vfUp
			for i, u := range s.ups {
				if u.tr == T-1 && i < s.lateInit[T-1] {
					continue
				}
				f = append(f, u)
			}
			s.ups = f
		}
		if fam == "unequal-durations" {
			odd := rng.Intn(T-1) + 1
			s.durOf = func(tr int, seq uint32) uint32 {
				if tr == odd {
					return 1 + seq%2 // 1: shorter, 2: longer; the track stays contiguous and re-aligns every second segment
				}
				return 0
			}
		}
		scheds = append(scheds, s)
	}
	var deaths int32
	for ci, s := range scheds {
		if !r.Begin(ci+1, fmt.Sprintf("%s T=%d tsbd=%d ups=%s", s.name, s.nTracks, s.tsbd, vfUpsStr(s.ups))) {
			continue
		}
		vfRunSched(t, r, s, ci)
	}
	_ = atomic.LoadInt32(&deaths)
	if r.NViolations() > 0 {
		t.Fail()
	}
}

func vfUpsStr(u []vfUp) string {
	var b strings.Builder
	for i, x := range u {
		if i > 80 {
			b.WriteString("...")
			break
		}
		fmt.Fprintf(&b, "%d:%d ", x.tr, x.seq)
	}
	return b.String()
}

func vfRunSched(t *testing.T, r *rep.R, s vfSched, ci int) {
	chName := fmt.Sprintf("ch%d", ci)
	cfg := &Config{Channels: []ChannelConfig{{Name: chName, StartNr: s.startNr}}}
	rv := vfNewReceiver(t, s.tsbd, cfg)
	defer rv.close()
	if ci%5 == 0 {
		// every fifth schedule: a reader polls the published MPD while the receiver rewrites it, with the write itself slowed down
		// (delay point between creating and filling the file) - a reader must never see an incomplete document
		vhook.SetDelay("recv.before-write-timeline-mpd", 200*time.Microsecond)
		stop := make(chan struct{})
		var wg sync.WaitGroup
		wg.Add(1)
		mp := filepath.Join(rv.storage, chName, "manifest_timeline_nr.mpd")
		go func() {
			defer wg.Done()
			reads, bad := int64(0), ""
			for {
				select {
				case <-stop:
					r.Add("concurrent_mpd_reads", reads)
					if bad != "" {
						r.Violation("timeline-mpd-not-a-complete-document:seen-by-concurrent-reader", map[string]any{"schedule": vfUpsStr(s.ups), "family": s.name + "/" + s.shape, "what": bad})
					}
					return
				default:
				}
				if b, err := os.ReadFile(mp); err == nil {
					reads++
					if bad == "" && !(bytes.Contains(b, []byte("<MPD")) && bytes.Contains(b, []byte("</MPD>"))) {
						bad = fmt.Sprintf("read %d returned %d bytes: %q", reads, len(b), b[:min(len(b), 80)])
					}
				} else {
					runtime.Gosched()
				}
			}
		}()
		defer func() {
			close(stop)
			wg.Wait()
			vhook.SetDelay("recv.before-write-timeline-mpd", 0)
		}()
	}
	tracks := make([]*vfTrack, s.nTracks)
	for i := range tracks {
		if i == 0 || i%3 == 0 {
			tracks[i] = vfMakeTrack(t, fmt.Sprintf("v%d", i), "video", 90000, 180000, 4) // 2 s
		} else {
			tracks[i] = vfMakeTrack(t, fmt.Sprintf("a%d", i), "audio", 48000, 96000, 4) // 2 s
		}
	}
	vfEvReset()
	expected := 0 // channel messages of accepted uploads: 2 per single-chunk upload (data + completion)
	sigp := ""
	newestOf := make([]int64, s.nTracks)
	for i := range newestOf {
		newestOf[i] = -1
	}
	det := func(what string) map[string]any {
		return map[string]any{"schedule": vfUpsStr(s.ups), "family": s.name + "/" + s.shape, "tracks": s.nTracks, "tsbd_s": s.tsbd, "startNr": s.startNr, "what": what}
	}
	initDone := make([]bool, s.nTracks)
	sendInit := func(i int) bool {
		code := rv.put(fmt.Sprintf("%s/%s/init%s", chName, tracks[i].name, tracks[i].ext), tracks[i].init, nil)
		initDone[i] = true
		if code != 200 {
			r.Violation(sigp+fmt.Sprintf("init-upload-status-%d", code), det(tracks[i].name))
			return false
		}
		return true
	}
	for i := range tracks {
		if _, late := s.lateInit[i]; !late {
			if !sendInit(i) {
				return
			}
		}
	}
	uploaded := map[string][]byte{} // track/seq -> bytes of the first accepted upload
	newestListed := -1
	window := int(s.tsbd)*1/2 + 2 // tsbd*ts/d + 2 with 2 s segments
	maxSeq := uint32(0)
	mpdStates := 0
	justUploaded := -1
	masterCount := 0
	check := func(step string) bool {
		// stored files: once the window is known (the master track has delivered two segments) a track that has just uploaded
		// holds at most window (+1 slack) media files
		_, mErr := os.Stat(filepath.Join(rv.storage, chName, "manifest.mpd")) // written when the window has been decided
		if justUploaded >= 0 && masterCount >= 2 && mErr == nil {
			files := rv.mediaFiles(chName, tracks[justUploaded].name)
			if len(files) > window+1 {
				r.Violation(sigp+"storage-grows-beyond-window", det(fmt.Sprintf("%s: track %s holds %d media files right after its upload, window %d (+1 slack)", step, tracks[justUploaded].name, len(files), window)))
				return false
			}
		}
		// timeline MPD
		mp := filepath.Join(rv.storage, chName, "manifest_timeline_nr.mpd")
		b, err := os.ReadFile(mp)
		if err != nil {
			return true // not written yet
		}
		m, err := ora.ParseMPD(b)
		if err != nil || len(m.Periods) != 1 || !bytes.Contains(b, []byte("</MPD>")) {
			r.Violation(sigp+"timeline-mpd-not-a-complete-document", det(step))
			return false
		}
		first, last := int64(-1), int64(-1)
		for _, as := range m.Periods[0].AS {
			if as.ST == nil || as.ST.Timeline == nil || as.ST.StartNumber == nil {
				r.Violation(sigp+"timeline-mpd-adaptation-set-without-timeline", det(step))
				return false
			}
			nr := int64(*as.ST.StartNumber)
			f := nr
			var tcur uint64
			for si, sx := range as.ST.Timeline.S {
				if sx.T != nil {
					if si > 0 && *sx.T != tcur {
						r.Violation(sigp+"timeline-mpd-not-contiguous", det(fmt.Sprintf("%s: S@t=%d after %d", step, *sx.T, tcur)))
						return false
					}
					tcur = *sx.T
				}
				for k := 0; k <= sx.R; k++ {
					for _, rp := range as.Reps {
						var tr *vfTrack
						for _, x := range tracks {
							if x.name == rp.ID {
								tr = x
							}
						}
						if tr == nil {
							continue
						}
						fp := filepath.Join(rv.storage, chName, tr.name, fmt.Sprintf("%d%s", nr, tr.ext))
						fb, err := os.ReadFile(fp)
						if err != nil {
							// how far is this track ahead of the newest number the MPD lists? (the receiver deletes n-window when a track
							// uploads n, whatever the MPD still lists: being two or more ahead of the listed edge is the recorded finding)
							lead := "uploader-ahead-of-listed-edge<=1"
							{
								cnt := int64(0)
								for _, sy := range as.ST.Timeline.S {
									cnt += int64(sy.R) + 1
								}
								lastListed := int64(*as.ST.StartNumber) + cnt - 1
								for i, x := range tracks {
									if x == tr && newestOf[i]-int64(s.startNr)-lastListed >= 2 {
										lead = "uploader-ahead-of-listed-edge>=2"
									}
								}
							}
							// was the segment delivered (and accepted) before? then it was deleted while still listed; else it was never there
							ti := -1
							for i, x := range tracks {
								if x == tr {
									ti = i
								}
							}
							if _, was := uploaded[fmt.Sprintf("%d/%d", ti, nr+int64(s.startNr))]; !was {
								r.Violation(sigp+"mpd-lists-number-never-delivered-by-a-track", det(fmt.Sprintf("%s: number %d listed but track %s has not delivered it (listed range starts at %d)", step, nr, tr.name, f)))
								return false
							}
							r.Violation(sigp+"mpd-lists-number-whose-segment-was-deleted:"+lead, det(fmt.Sprintf("%s: number %d listed but %s/%d%s is not stored (listed range starts at %d)", step, nr, tr.name, nr, tr.ext, f)))
							return false
						}
						ps, err := ora.ParseSegment(fb, nil)
						if err != nil {
							r.Violation(sigp+"stored-segment-unparseable", det(fp))
							return false
						}
						if rp.ID == as.Reps[0].ID && (ps.Tfdt != tcur || ps.TotalDur != sx.D) {
							r.Violation(sigp+"mpd-time-or-duration-differs-from-stored-segment", det(fmt.Sprintf("%s: number %d declared t=%d d=%d, stored %s has tfdt=%d dur=%d", step, nr, tcur, sx.D, tr.name, ps.Tfdt, ps.TotalDur)))
							return false
						}
					}
					tcur += sx.D
					nr++
				}
			}
			l := nr - 1
			if first == -1 {
				first, last = f, l
			} else if f != first || l != last {
				r.Violation(sigp+"adaptation-sets-list-different-number-ranges", det(fmt.Sprintf("%s: [%d,%d] vs [%d,%d]", step, first, last, f, l)))
				return false
			}
		}
		// every track of the channel must be covered by the MPD's listing
		if int(last) < newestListed {
			r.Violation(sigp+"newest-listed-number-decreased", det(fmt.Sprintf("%s: %d after %d", step, last, newestListed)))
			return false
		}
		if int(last) != newestListed {
			mpdStates++
		}
		newestListed = int(last)
		return true
	}
	upload := func(tr int, seq uint32, step string) bool {
		var body []byte
		if s.durOf != nil && s.durOf(tr, seq) != 0 {
			x := tracks[tr].segDur / 8
			D := uint64(tracks[tr].segDur)
			if s.durOf(tr, seq) == 1 { // even sequence number: shorter, starts on the grid
				body = tracks[tr].segmentAt(chName, seq, uint64(seq)*D, tracks[tr].segDur-x, 1)
			} else { // odd: starts x early, longer
				body = tracks[tr].segmentAt(chName, seq, uint64(seq)*D-uint64(x), tracks[tr].segDur+x, 1)
			}
		} else {
			body = tracks[tr].segment(chName, seq, 0, 1)
		}
		code := rv.put(fmt.Sprintf("%s/%s/%d%s", chName, tracks[tr].name, seq, tracks[tr].ext), body, nil)
		r.Eval(1)
		if code == 200 {
			expected += 2
			key := fmt.Sprintf("%d/%d", tr, seq)
			if _, ok := uploaded[key]; !ok {
				uploaded[key] = body
			}
		} else if initDone[tr] {
			r.Violation(sigp+fmt.Sprintf("media-upload-status-%d", code), det(fmt.Sprintf("%s track %s seq %d", step, tracks[tr].name, seq)))
			return false
		}
		if !vfWaitCompleted(chName, expected/2, 20*time.Second) {
			r.Violation(sigp+"receiver-stopped-processing-uploads", det(fmt.Sprintf("%s: %d of %d accepted uploads handled by the channel goroutine after 20 s", step, vfCompleted(chName), expected/2)))
			return false
		}
		if code == 200 {
			// stored under its track and number with the uploaded content
			fp := filepath.Join(rv.storage, chName, tracks[tr].name, fmt.Sprintf("%d%s", int(seq)-s.startNr, tracks[tr].ext))
			fb, err := os.ReadFile(fp)
			if err != nil {
				if int(seq)+window+1 >= int(maxSeq) { // may legitimately be outside the window already
					r.Violation(sigp+"accepted-segment-not-stored", det(fmt.Sprintf("%s: %s", step, fp)))
					return false
				}
			} else if !bytes.Equal(fb, uploaded[fmt.Sprintf("%d/%d", tr, seq)]) && !bytes.Equal(fb, body) {
				// with startNr the sequence number inside is rewritten: compare samples
				a, e1 := ora.ParseSegment(fb, nil)
				b2, e2 := ora.ParseSegment(body, nil)
				if e1 != nil || e2 != nil || len(a.Samples) != len(b2.Samples) || a.Tfdt != b2.Tfdt {
					r.Violation(sigp+"stored-content-differs-from-upload", det(fmt.Sprintf("%s: %s", step, fp)))
					return false
				}
				for i := range a.Samples {
					if a.Samples[i] != b2.Samples[i] {
						r.Violation(sigp+"stored-content-differs-from-upload", det(fmt.Sprintf("%s: %s sample %d", step, fp, i)))
						return false
					}
				}
			}
		}
		if seq > maxSeq {
			maxSeq = seq
		}
		if code == 200 && int64(seq) > newestOf[tr] {
			newestOf[tr] = int64(seq)
		}
		justUploaded = tr
		if tr == 0 && code == 200 {
			masterCount++
		}
		return check(step)
	}
	for i, u := range s.ups {
		for tr, at := range s.lateInit {
			if at == i && !initDone[tr] {
				if !sendInit(tr) {
					return
				}
			}
		}
		if u.broken {
			body := tracks[u.tr].segment(chName, u.seq, 0, 2)
			nEv := len(vfEventsFor(chName))
			code := rv.put(fmt.Sprintf("%s/%s/%d%s", chName, tracks[u.tr].name, u.seq, tracks[u.tr].ext), body[:len(body)*3/4], nil)
			r.Eval(1)
			r.Add(fmt.Sprintf("broken_uploads_answered_%d", code), 1)
			// let the channel goroutine take what the broken request has handed over (bounded wait, nothing is decided by it)
			for w := 0; w < 400 && len(vfEventsFor(chName)) == nEv; w++ {
				time.Sleep(100 * time.Microsecond)
			}
			time.Sleep(time.Millisecond)
			continue
		}
		if !upload(u.tr, u.seq, fmt.Sprintf("upload %d (track %d seq %d)", i, u.tr, u.seq)) {
			return
		}
	}
	for tr := range s.lateInit {
		if !initDone[tr] {
			sendInit(tr)
		}
	}
	// bounded progress: window+2 complete in-order rounds
	next := maxSeq + 1
	rounds := window + 2
	for k := 0; k < rounds; k++ {
		for tr := range tracks {
			if !upload(tr, next+uint32(k), fmt.Sprintf("progress round %d track %d", k, tr)) {
				return
			}
		}
	}
	want := int(next) + rounds - 1 - s.startNr - 1
	if newestListed < want {
		r.Violation(sigp+"no-progress-after-complete-in-order-rounds", det(fmt.Sprintf("after %d complete rounds up to number %d the MPD lists up to %d", rounds, want+1, newestListed)))
		return
	}
	r.Class(fmt.Sprintf("%s|%s|T=%d|M~%d|tsbd=%d|mpd-updates=%d", s.name, s.shape, s.nTracks, len(s.ups)/s.nTracks, s.tsbd, min(mpdStates, 20)))
	if ci%200 == 3 {
		r.Sample(map[string]any{"schedule": vfUpsStr(s.ups), "family": s.name + "/" + s.shape, "tsbd_s": s.tsbd, "newest_listed_at_end": newestListed, "mpd_updates": mpdStates})
	}
	_ = time.Second
}
