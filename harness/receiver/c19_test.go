package app

// C19 – the ingest receiver tolerates concurrent uploads.
// Concurrent first uploads (init, then media) of several tracks / channels released from a barrier, with the check-then-add
// window widened by a verif delay point in half of the rounds; invariants on the result, sequential-replay equivalence,
// and the Go race detector (this monitor is built with -race; reports are collected by run.py).

import (
	"bytes"
	"encoding/base64"
	"fmt"
	"os"
	"path/filepath"
	"runtime"
	"sort"
	"strings"
	"sync"
	"sync/atomic"
	"testing"
	"time"

	"github.com/Dash-Industry-Forum/livesim2/internal/vhook"
	"verif.local/vlib/ora"
	"verif.local/vlib/rep"
)

type vfC19Result struct {
	files  map[string]uint64 // relative path -> hash
	mpd    string            // canonical manifest.mpd
	tl     string            // canonical manifest_timeline_nr.mpd
	reps   []string          // representation ids in manifest.mpd order, per channel "ch/rep"
	tlReps []string          // representation ids in manifest_timeline_nr.mpd
}

func vfSnapshot(storage string, chans []string) vfC19Result {
	res := vfC19Result{files: map[string]uint64{}}
	for _, ch := range chans {
		_ = filepath.Walk(filepath.Join(storage, ch), func(p string, info os.FileInfo, err error) error {
			if err != nil || info.IsDir() {
				return nil
			}
			rel, _ := filepath.Rel(storage, p)
			if strings.HasSuffix(p, ".tmp") {
				return nil
			}
			b, _ := os.ReadFile(p)
			if strings.HasSuffix(p, ".mpd") {
				c, err := ora.CanonBytes(b)
				if err != nil {
					c = "UNPARSEABLE:" + err.Error()
				}
				if strings.HasSuffix(p, "manifest.mpd") {
					res.mpd += ch + ":\n" + c
					if m, err := ora.ParseMPD(b); err == nil && len(m.Periods) > 0 {
						for _, as := range m.Periods[0].AS {
							for _, r := range as.Reps {
								res.reps = append(res.reps, ch+"/"+r.ID)
							}
						}
					}
				} else {
					res.tl += ch + ":\n" + c
					// the timeline MPD is rewritten for every new number from the channel's MPD object: it knows later registrations too
					if m, err := ora.ParseMPD(b); err == nil && len(m.Periods) > 0 {
						for _, as := range m.Periods[0].AS {
							for _, r := range as.Reps {
								res.tlReps = append(res.tlReps, ch+"/"+r.ID)
							}
						}
					}
				}
				return nil
			}
			h := uint64(14695981039346656037)
			for _, x := range b {
				h = (h ^ uint64(x)) * 1099511628211
			}
			res.files[rel] = h
			return nil
		})
	}
	return res
}

func TestVerifC19(t *testing.T) {
	r := rep.New("C19")
	r.FlushEach = true
	r.Rule("case = one round: C channels x T tracks, each track uploads its init and then M media segments from its own goroutine, all released from a barrier (delay point before AddChannel active in every second round); " +
		"class = (channels, tracks, auth, delay, observed registration order hash); counted when the invariants and the sequential-replay equivalence were evaluated")
	r.Assume("sequential replay order: init uploads in the order the representations appear in the concurrent run's manifest.mpd (registration order), media uploads in the order of the recv.processed(complete) hook events")
	r.Assume("tsbd is chosen larger than the run, so no deletion interferes")
	defer func() { r.Done(); t.Log(r.Summary()) }()
	vfInitLog()
	rounds := r.Pick(40, 1500)
	for round := 0; round < rounds; round++ {
		rng := r.Rand(int64(19000 + round))
		C := 1 + rng.Intn(4)
		T := 2 + rng.Intn(7)
		if C*T > 16 {
			T = 16 / C
		}
		M := 3 + rng.Intn(2)
		auth := rng.Intn(3) == 0
		delay := round%2 == 1
		// variants: every sixth round doubles each init upload (a retried first request in flight together with the original),
		// another one stalls the channel goroutine inside its MPD write while eight tracks upload (the hand-over queue fills up),
		// a third one restarts the receiver on the stored channel and sends two media segments per track at once
		variant := []string{"", "", "", "restart", "double-init", "slow-channel"}[round%6]
		if variant == "slow-channel" {
			C, T, M = 1, 8, 7
		}
		if !r.Begin(round+1, fmt.Sprintf("round %d C=%d T=%d M=%d auth=%v delay=%v", round, C, T, M, auth, delay)) {
			continue
		}
		cfg := &Config{}
		var chans []string
		for c := 0; c < C; c++ {
			name := fmt.Sprintf("r%dc%d", round, c)
			chans = append(chans, name)
			cc := ChannelConfig{Name: name}
			if auth {
				cc.AuthUser, cc.AuthPswd = "u", "p"
			}
			if rng.Intn(2) == 0 {
				cc.Reps = []RepresentationConfig{{Name: "a1", Language: "se", Role: "alternate", DisplayName: "svenska"}}
			}
			cfg.Channels = append(cfg.Channels, cc)
		}
		tracks := make([]*vfTrack, T)
		for i := range tracks {
			if i%2 == 0 {
				tracks[i] = vfMakeTrack(t, fmt.Sprintf("v%d", i), "video", 90000, 180000, 3)
			} else {
				tracks[i] = vfMakeTrack(t, fmt.Sprintf("a%d", i), "audio", 48000, 96000, 3)
			}
		}
		hdr := map[string]string{}
		if auth {
			hdr["Authorization"] = "Basic " + base64.StdEncoding.EncodeToString([]byte("u:p"))
		}
		vhook.Reset()
		vfEvReset()
		chPrefix := fmt.Sprintf("r%dc", round)
		if delay {
			vhook.SetDelay("recv.before-add-channel", 2*time.Millisecond)
		}
		if variant == "slow-channel" {
			vhook.SetDelay("recv.before-write-timeline-mpd", 350*time.Millisecond)
		}
		rv := vfNewReceiver(t, 60, cfg)
		type upRes struct {
			ch, tr string
			seq    int // -1 init
			code   int
		}
		var mu sync.Mutex
		var results []upRes
		var wg sync.WaitGroup
		gate := make(chan struct{})
		for _, ch := range chans {
			for _, tr := range tracks {
				if variant == "double-init" {
					wg.Add(1)
					go func(ch string, tr *vfTrack) {
						defer wg.Done()
						<-gate
						code := rv.put(fmt.Sprintf("%s/%s/init%s", ch, tr.name, tr.ext), tr.init, hdr)
						mu.Lock()
						results = append(results, upRes{ch, tr.name, -1, code})
						mu.Unlock()
					}(ch, tr)
				}
				wg.Add(1)
				go func(ch string, tr *vfTrack) {
					defer wg.Done()
					<-gate
					code := rv.put(fmt.Sprintf("%s/%s/init%s", ch, tr.name, tr.ext), tr.init, hdr)
					mu.Lock()
					results = append(results, upRes{ch, tr.name, -1, code})
					mu.Unlock()
					for s := 0; s < M; s++ {
						code := rv.put(fmt.Sprintf("%s/%s/%d%s", ch, tr.name, s, tr.ext), tr.segment(ch, uint32(s), 0, 1), hdr)
						mu.Lock()
						results = append(results, upRes{ch, tr.name, s, code})
						mu.Unlock()
					}
				}(ch, tr)
			}
		}
		close(gate)
		doneCh := make(chan struct{})
		go func() { wg.Wait(); close(doneCh) }()
		select {
		case <-doneCh:
		case <-time.After(45 * time.Second): // a round normally takes milliseconds
			// two observations 10 s apart: handlers that are parked in the same place with no upload answered in
			// between are blocked, not slow (a stalled machine must not fabricate the verdict)
			dump := func() (int, string, int) {
				buf := make([]byte, 1<<20)
				buf = buf[:runtime.Stack(buf, true)]
				blocked := 0
				where := ""
				for _, g := range strings.Split(string(buf), "\n\n") {
					if strings.Contains(g, "SegmentHandlerFunc") && (strings.Contains(g, "[chan send") || strings.Contains(g, "[sync.") || strings.Contains(g, "[semacquire") || strings.Contains(g, "[select")) {
						blocked++
						for _, l := range strings.Split(g, "\n") {
							if strings.Contains(l, "cmaf-ingest-receiver/app.") && where == "" {
								where = strings.TrimSpace(strings.SplitN(l, "(", 2)[0])
							}
						}
					}
				}
				mu.Lock()
				n := len(results)
				mu.Unlock()
				return blocked, where, n
			}
			b1, _, n1 := dump()
			finishedLate := false
			select {
			case <-doneCh:
				finishedLate = true
			case <-time.After(10 * time.Second):
			}
			blocked, where, n2 := dump()
			if finishedLate || n2 != n1 || b1 == 0 {
				blocked = 0
			}
			if blocked > 0 {
				r.Violation("uploads-never-answered:handlers-blocked", map[string]any{"round": round, "blocked_handlers": blocked, "innermost_repo_function": where, "channels": C, "tracks": T})
			} else {
				r.Inconclusive("round-watchdog")
			}
			r.Flush(false)
			t.Fail()
			return // goroutines of this round are stuck; leave the process to the driver
		}
		r.Eval(len(results))
		okMedia := 0
		for _, x := range results {
			if x.code == 200 && x.seq >= 0 {
				okMedia++
			}
		}
		vfWaitCompleted(chPrefix, okMedia, 20*time.Second)
		time.Sleep(5 * time.Millisecond)
		evs := vfEventsFor(chPrefix)
		snap := vfSnapshot(rv.storage, chans)
		det := func(what string) map[string]any {
			return map[string]any{"round": round, "channels": C, "tracks": T, "media_per_track": M, "auth": auth, "delay_point": delay, "what": what}
		}
		bad := false
		// (1) invariants
		for _, x := range results {
			if x.code != 200 {
				r.Violation(fmt.Sprintf("upload-refused-status-%d", x.code), det(fmt.Sprintf("%s/%s seq %d", x.ch, x.tr, x.seq)))
				bad = true
				break
			}
		}
		// registration: the recv.registered hook event must have been seen exactly once per (channel, track); the MPD files
		// may have been written before a track registered (manifest.mpd is written once), but must not list a track twice
		regd := map[string]int{}
		var regOrder []string
		for _, e := range evs {
			if e.Name == "recv.registered" && len(e.KV) >= 2 {
				id := e.KV[0].(string) + "/" + e.KV[1].(string)
				regd[id]++
				regOrder = append(regOrder, id)
			}
		}
		for _, lst := range [][]string{snap.reps, snap.tlReps} {
			seen := map[string]bool{}
			for _, id := range lst {
				if seen[id] && variant != "double-init" { // a repeated init upload registers again, also sequentially: judged by the replay only
					r.Violation("representation-listed-twice-in-mpd", det(fmt.Sprintf("%s in %v", id, lst)))
					bad = true
				}
				seen[id] = true
			}
		}
		for _, ch := range chans {
			for _, tr := range tracks {
				if n := regd[ch+"/"+tr.name]; n != 1 && !(variant == "double-init" && n == 2) {
					r.Violation("track-not-registered-exactly-once", det(fmt.Sprintf("%s/%s was registered %d times (registration events: %v)", ch, tr.name, regd[ch+"/"+tr.name], regOrder)))
					bad = true
				}
				if _, ok := snap.files[filepath.Join(ch, tr.name, "init"+tr.ext)]; !ok {
					r.Violation("init-segment-not-stored", det(ch+"/"+tr.name))
					bad = true
				}
				for s := 0; s < M; s++ {
					fp := filepath.Join(rv.storage, ch, tr.name, fmt.Sprintf("%d%s", s, tr.ext))
					b, err := os.ReadFile(fp)
					if err != nil {
						r.Violation("accepted-upload-not-stored", det(fp))
						bad = true
						continue
					}
					if !bytes.Equal(b, tr.segment(ch, uint32(s), 0, 1)) {
						r.Violation("upload-stored-with-wrong-content", det(fp))
						bad = true
					}
				}
			}
		}
		if strings.Contains(snap.mpd, "UNPARSEABLE") || strings.Contains(snap.tl, "UNPARSEABLE") {
			r.Violation("mpd-file-not-well-formed", det(""))
			bad = true
		}
		vhook.SetDelay("recv.before-write-timeline-mpd", 0)
		// (2) sequential replay of the observed serialization
		if !bad {
			rv2 := vfNewReceiver(t, 60, cfg)
			vfEvReset()
			n := 0
			// replay the observed serialization: registrations (init uploads) and completed media segments in event order
			for _, e := range evs {
				switch {
				case e.Name == "recv.registered" && len(e.KV) >= 2:
					ch, trn := e.KV[0].(string), e.KV[1].(string)
					for _, tr := range tracks {
						if tr.name == trn {
							rv2.put(fmt.Sprintf("%s/%s/init%s", ch, tr.name, tr.ext), tr.init, hdr)
						}
					}
				case e.Name == "recv.processed" && len(e.KV) >= 5 && e.KV[4] == true:
					ch, trn, seq := e.KV[0].(string), e.KV[1].(string), e.KV[2].(uint32)
					for _, tr := range tracks {
						if tr.name == trn {
							if rv2.put(fmt.Sprintf("%s/%s/%d%s", ch, tr.name, seq, tr.ext), tr.segment(ch, seq, 0, 1), hdr) == 200 {
								n++
							}
							vfWaitCompleted(chPrefix, n, 20*time.Second)
						}
					}
				}
			}
			snap2 := vfSnapshot(rv2.storage, chans)
			rv2.close()
			if fmt.Sprint(snap.files) != fmt.Sprint(snap2.files) {
				r.Violation("stored-files-differ-from-sequential-replay", det(fmt.Sprintf("%d vs %d files", len(snap.files), len(snap2.files))))
			} else if snap.mpd != snap2.mpd {
				r.Violation("manifest-differs-from-sequential-replay", det(ora.FirstDiff(snap.mpd, snap2.mpd)))
			} else if snap.tl != snap2.tl {
				r.Violation("timeline-manifest-differs-from-sequential-replay", det(ora.FirstDiff(snap.tl, snap2.tl)))
			}
		}
		if variant == "restart" && !bad {
			// the receiver is started again on the stored channels; the first requests it sees are two media segments per track at once
			rvR := vfNewReceiverAt(t, rv.storage, 60, cfg)
			vfEvReset()
			var wgR sync.WaitGroup
			var refused int32
			gateR := make(chan struct{})
			for _, ch := range chans {
				for _, tr := range tracks {
					for k := 0; k < 2; k++ {
						wgR.Add(1)
						go func(ch string, tr *vfTrack, seq uint32) {
							defer wgR.Done()
							<-gateR
							if rvR.put(fmt.Sprintf("%s/%s/%d%s", ch, tr.name, seq, tr.ext), tr.segment(ch, seq, 0, 1), hdr) != 200 {
								atomic.AddInt32(&refused, 1)
							}
						}(ch, tr, uint32(M+k))
					}
				}
			}
			close(gateR)
			doneR := make(chan struct{})
			go func() { wgR.Wait(); close(doneR) }()
			select {
			case <-doneR:
				r.Eval(2 * len(chans) * len(tracks))
				vfWaitCompleted(chPrefix, 2*len(chans)*len(tracks)-int(refused), 20*time.Second)
				regR := map[string]int{}
				for _, e := range vfEventsFor(chPrefix) {
					if e.Name == "recv.registered" && len(e.KV) >= 2 {
						regR[e.KV[0].(string)+"/"+e.KV[1].(string)]++
					}
				}
				for id, n := range regR {
					if n != 1 {
						r.Violation("track-not-registered-exactly-once:after-restart", det(fmt.Sprintf("%s was registered %d times by two concurrent uploads after a restart", id, n)))
					}
				}
				snapR := vfSnapshot(rv.storage, chans)
				for _, lst := range [][]string{snapR.reps, snapR.tlReps} {
					seen := map[string]bool{}
					for _, id := range lst {
						if seen[id] {
							r.Violation("representation-listed-twice-in-mpd:after-restart", det(fmt.Sprintf("%s in %v", id, lst)))
						}
						seen[id] = true
					}
				}
				if refused > 0 {
					r.Violation("upload-refused-after-restart", det(fmt.Sprintf("%d of %d uploads", refused, 2*len(chans)*len(tracks))))
				}
			case <-time.After(60 * time.Second):
				r.Inconclusive("restart-phase-watchdog")
			}
			rvR.cancel()
		}
		rv.close()
		order := append([]string{}, regOrder...)
		h := 0
		for i, s := range order {
			h = h*31 + len(s)*(i+1) + int(s[len(s)-1])
		}
		sort.Strings(order)
		r.Class(fmt.Sprintf("C=%d|T=%d|auth=%v|delay=%v|variant=%s|order=%x", C, T, auth, delay, variant, h%4096))
		if round < 2 {
			r.Sample(map[string]any{"round": round, "channels": C, "tracks": T, "registration_order": regOrder, "hook_events": len(evs)})
		}
	}
	if r.NViolations() > 0 {
		t.Fail()
	}
}
