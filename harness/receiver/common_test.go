package app

// Shared helpers of the ingest-receiver monitors (C17, C19, C08R): synthetic CMAF tracks with tagged samples,
// an in-process receiver, storage inspection. Only identifiers the repository's own tests use are touched
// (Options{prefix,storage,timeShiftBufferDepthS}, NewReceiver, setupRouter, Config, ChannelConfig) plus internal/vhook.

import (
	"bytes"
	"context"
	"fmt"
	"net/http"
	"net/http/httptest"
	"os"
	"path/filepath"
	"runtime"
	"sort"
	"strings"
	"sync"
	"testing"
	"time"

	"github.com/Dash-Industry-Forum/livesim2/internal/vhook"
	"github.com/Dash-Industry-Forum/livesim2/pkg/logging"
	"github.com/Eyevinn/mp4ff/bits"
	"github.com/Eyevinn/mp4ff/mp4"
	"github.com/go-chi/chi/v5"
)

var vfLogOnce sync.Once

func vfInitLog() { vfLogOnce.Do(func() { _ = logging.InitSlog("error", logging.LogDiscard) }) }

type vfTrack struct {
	name      string
	ext       string // .cmfv .cmfa
	timescale uint32
	segDur    uint32 // ticks per segment
	nSamples  int
	init      []byte
	trackID   uint32
}

// vfMakeTrack builds a track from one of the testdata init segments (re-stamped with the wanted timescale).
func vfMakeTrack(t testing.TB, name, kind string, timescale, segDur uint32, nSamples int) *vfTrack {
	src := "testdata/zero_3.84s/video-500Kbps/init_org.cmfv"
	ext := ".cmfv"
	if kind == "audio" {
		src, ext = "testdata/zero_3.84s/audio-nor-128Kbps/init_org.cmfa", ".cmfa"
	}
	b, err := os.ReadFile(src)
	if err != nil {
		t.Fatal(err)
	}
	f, err := mp4.DecodeFile(bytes.NewReader(b))
	if err != nil || f.Init == nil {
		t.Fatalf("init %s: %v", src, err)
	}
	f.Init.Moov.Trak.Mdia.Mdhd.Timescale = timescale
	f.Init.Moov.Mvhd.SetCreationTimeS(0)
	sw := bits.NewFixedSliceWriter(int(f.Init.Size()))
	if err := f.Init.EncodeSW(sw); err != nil {
		t.Fatal(err)
	}
	return &vfTrack{name: name, ext: ext, timescale: timescale, segDur: segDur, nSamples: nSamples, init: sw.Bytes(), trackID: f.Init.Moov.Trak.Tkhd.TrackID}
}

// segment builds media segment seq (tfdt = seq*segDur) with uniquely tagged sample payloads. dur overrides the duration if > 0.
func (tr *vfTrack) segment(ch string, seq uint32, dur uint32, nFrags int) []byte {
	return tr.segmentAt(ch, seq, uint64(seq)*uint64(tr.segDur), dur, nFrags)
}

// segmentAt builds media segment seq starting at decode time start.
func (tr *vfTrack) segmentAt(ch string, seq uint32, start uint64, dur uint32, nFrags int) []byte {
	if dur == 0 {
		dur = tr.segDur
	}
	if nFrags <= 0 {
		nFrags = 1
	}
	seg := mp4.NewMediaSegment()
	dt := start
	per := tr.nSamples / nFrags
	si := 0
	for fi := 0; fi < nFrags; fi++ {
		frag, _ := mp4.CreateFragment(seq, tr.trackID)
		seg.AddFragment(frag)
		cnt := per
		if fi == nFrags-1 {
			cnt = tr.nSamples - si
		}
		for k := 0; k < cnt; k++ {
			sd := dur / uint32(tr.nSamples)
			if si == tr.nSamples-1 {
				sd = dur - sd*uint32(tr.nSamples-1)
			}
			payload := []byte(fmt.Sprintf("%s#%s#%d#%d|payload-payload", ch, tr.name, seq, si))
			frag.AddFullSample(mp4.FullSample{Sample: mp4.Sample{Flags: mp4.SyncSampleFlags, Dur: sd, Size: uint32(len(payload))}, DecodeTime: dt, Data: payload})
			dt += uint64(sd)
			si++
		}
	}
	sw := bits.NewFixedSliceWriter(int(seg.Size()))
	if err := seg.EncodeSW(sw); err != nil {
		panic(err)
	}
	return sw.Bytes()
}

type vfRecv struct {
	router  *chi.Mux
	storage string
	cancel  context.CancelFunc
	puts    int
}

func vfNewReceiver(t testing.TB, tsbdS uint64, cfg *Config) *vfRecv {
	dir, err := os.MkdirTemp("", "vf-recv-")
	if err != nil {
		t.Fatal(err)
	}
	return vfNewReceiverAt(t, dir, tsbdS, cfg)
}

// vfNewReceiverAt starts a receiver on an existing storage directory (a restart keeps what was stored).
func vfNewReceiverAt(t testing.TB, dir string, tsbdS uint64, cfg *Config) *vfRecv {
	vfInitLog()
	opts := Options{prefix: "/upload", storage: dir, timeShiftBufferDepthS: tsbdS}
	if cfg == nil {
		cfg = &Config{}
	}
	ctx, cancel := context.WithCancel(context.Background())
	r, err := NewReceiver(ctx, &opts, cfg)
	if err != nil {
		t.Fatal(err)
	}
	// the router of setupRouter includes a request logger writing to stdout; use the same handlers on a quiet router
	router := chi.NewRouter()
	full := setupRouter(r, opts.storage, "")
	_ = full
	router.Put("/upload/*", r.SegmentHandlerFunc)
	router.Post("/upload/*", r.SegmentHandlerFunc)
	return &vfRecv{router: router, storage: dir, cancel: cancel}
}

func (v *vfRecv) close() {
	v.cancel()
	os.RemoveAll(v.storage)
}

func (v *vfRecv) put(path string, body []byte, hdr map[string]string) int {
	rr := httptest.NewRecorder()
	req := httptest.NewRequest("PUT", "/upload/"+path, bytes.NewReader(body))
	req.Header.Set("Content-Length", fmt.Sprint(len(body)))
	for k, val := range hdr {
		req.Header.Set(k, val)
	}
	v.router.ServeHTTP(rr, req)
	return rr.Code
}

// Event log pulled from the hook package. Quiescence is judged per channel name: messages that a receiver of an earlier case
// (which ended early, e.g. on a violation) still processes afterwards must not be counted for the current case.
var (
	vfEvMu  sync.Mutex
	vfEvLog []vhook.Ev
)

func vfEvPull() {
	evs := vhook.Drain()
	vfEvMu.Lock()
	vfEvLog = append(vfEvLog, evs...)
	vfEvMu.Unlock()
}

// vfEvReset forgets everything logged so far.
func vfEvReset() {
	vhook.Drain()
	vfEvMu.Lock()
	vfEvLog = nil
	vfEvMu.Unlock()
}

// vfEventsFor returns the logged events whose channel name (first value) starts with the prefix, in order.
func vfEventsFor(chPrefix string) []vhook.Ev {
	vfEvPull()
	vfEvMu.Lock()
	defer vfEvMu.Unlock()
	var out []vhook.Ev
	for _, e := range vfEvLog {
		if len(e.KV) > 0 {
			if c, ok := e.KV[0].(string); ok && strings.HasPrefix(c, chPrefix) {
				out = append(out, e)
			}
		}
	}
	return out
}

// vfCompleted counts the completed uploads (recv.processed with complete=true) the channel goroutines of these channels have handled.
func vfCompleted(chPrefix string) int {
	n := 0
	for _, e := range vfEventsFor(chPrefix) {
		if e.Name == "recv.processed" && len(e.KV) >= 5 && e.KV[4] == true {
			n++
		}
	}
	return n
}

// vfWaitCompleted waits until n uploads to the channels with the prefix have been handled completely (watchdog d).
func vfWaitCompleted(chPrefix string, n int, d time.Duration) bool {
	if n <= 0 {
		return true
	}
	deadline := time.Now().Add(d)
	for i := 0; ; i++ {
		if vfCompleted(chPrefix) >= n {
			return true
		}
		if time.Now().After(deadline) {
			return false
		}
		if i < 200 {
			runtime.Gosched()
		} else {
			time.Sleep(100 * time.Microsecond)
		}
	}
}

// quiesce waits until the channel goroutines have processed n messages in total (0 = do not wait).
func vfQuiesce(n int) bool {
	if n <= 0 {
		return true
	}
	return vhook.WaitCount("recv.processed", n, 20*time.Second)
}

type vfStored struct {
	seq   int
	tfdt  uint64
	dur   uint64
	bytes []byte
}

// mediaFiles lists the stored media segments of a track (numeric file names).
func (v *vfRecv) mediaFiles(ch, track string) map[int]string {
	out := map[int]string{}
	ents, _ := os.ReadDir(filepath.Join(v.storage, ch, track))
	for _, e := range ents {
		name := e.Name()
		base := strings.TrimSuffix(name, filepath.Ext(name))
		n := 0
		if _, err := fmt.Sscanf(base, "%d", &n); err == nil && fmt.Sprint(n) == base {
			out[n] = filepath.Join(v.storage, ch, track, name)
		}
	}
	return out
}

func vfSortedKeys(m map[int]string) []int {
	var k []int
	for x := range m {
		k = append(k, x)
	}
	sort.Ints(k)
	return k
}

var _ = http.StatusOK
