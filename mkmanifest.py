#!/usr/bin/env python3
"""Regenerates MANIFEST.json from the table below; a property is claimed iff its monitor files exist."""
import json, os, subprocess, sys
V = os.path.dirname(os.path.abspath(__file__))
sys.path.insert(0, V)
import run as R

TEXT = {
 "C01": ("runtime monitoring: field-wise comparison of every served segment with an independent VoD truth table (mp4ff parse of the source files) over consecutive indices, loop wraps, far-from-epoch instants, all addressing modes; bundled + generated uniquely-tagged assets",
         "differential oracle vs. VoD source files over served segments"),
 "C02": ("runtime monitoring: every segment URL an MPD declares is fetched at the same instant and compared (status, tfdt, duration, number) with the declaration, at both sides of every breakpoint of the piecewise-constant behaviour",
         "MPD-vs-segment-server cross-check at breakpoint instants"),
 "C03": ("runtime monitoring: exact-integer reference model of frame-grid re-segmentation compared with every served audio segment (tfdt, frame count, frame identity) and the audio SegmentTimeline",
         "reference-model monitor over served audio segments"),
 "C04": ("runtime monitoring: online phase monitor (425<200<410) per URL over a millisecond sweep around both transitions computed independently from the VoD files",
         "online trace monitor over nowMS sweeps"),
 "C05": ("runtime monitoring: relational monitor over the sequence of MPDs of an increasing sweep (window edges monotone, publishTime function/injective on content, static after stop)",
         "relational trace monitor over MPD sequences"),
 "C06": ("runtime monitoring: multi-period MPD compared with the single-period MPD of the same instant, segment by segment incl. bytes behind the derived URLs; acceptance rule over periods 1..3600",
         "differential monitor multi-period vs single-period"),
 "C07": ("runtime monitoring + race detector: response table (status, content-type, body hash) of a request corpus compared across sequential / concurrent / reordered / fresh / cache-loaded server instances under -race; porcupine check of the ingest-session table",
         "Go race detector + differential replay + porcupine"),
 "C08": ("runtime monitoring: grammar-generated hostile requests and upload bodies through the real routers; oracle = recovered panic (empty 500 + stack), process death, per-request watchdog with goroutine-dump classification",
         "hostile-input exploration with crash/hang oracle"),
 "C09": ("runtime monitoring: recording ResponseWriter timestamps every Write/Flush; chunked body compared sample-for-sample with the whole segment; one-sided never-early check",
         "trace monitor on Write/Flush events + differential"),
 "C10": ("runtime monitoring: MPD default_KID vs served init tenc vs licence response vs decrypt(served segment) == clear segment",
         "end-to-end decrypt-and-compare monitor"),
 "C11": ("runtime monitoring: independent RFC 5261 patch applier; apply(served patch, MPD@t1) == MPD@t2 canonically, plus generated id-carrying tree pairs through patch.MPDDiff",
         "independent patch applier as oracle over instants and generated trees"),
 "C12": ("runtime monitoring: generated subtitle segments parsed and compared with the reference video segment and an independent cue-interval model",
         "reference-model monitor over served subtitle segments"),
 "C13": ("runtime monitoring: offline exactly-once checker over the recorded emsg log of consecutive segments; independent SCTE-35 section parser + CRC-32/MPEG-2",
         "offline event-log checker (exactly-once per minute)"),
 "C14": ("runtime monitoring: expected status per (segment, representation) / per (second, BaseURL) from an independent schedule model compared with every response",
         "schedule-model monitor over request sweeps"),
 "C15": ("runtime monitoring + fault injection: server instances on scan / write / cache / damaged-cache metadata compared response-by-response",
         "differential monitor over cache fault sequences"),
 "C16": ("runtime monitoring: scripted receiver logs every PUT; per-endpoint order/gap/duplicate/byte-equality/headers checked against livesim2's own GET output; -race",
         "event-log checker at the receiver boundary + race detector"),
 "C17": ("runtime monitoring: exhaustive small and seeded large upload interleavings against the real receiver; storage tree and timeline MPD checked after every upload",
         "schedule exploration with storage/MPD invariants"),
 "C18": ("runtime monitoring: callbacks of the real parser compared with an independent box walk over all read partitions of small streams and seeded large ones; termination watchdog",
         "reference-model monitor over read partitions"),
 "C19": ("runtime monitoring + race detector: concurrent first uploads from a barrier, invariants + sequential-replay equivalence, -race",
         "Go race detector + sequential-replay equivalence"),
 "C20": ("runtime monitoring + race detector: executable reference model on seeded virtual-time sequences, exact 1..k counter multiset and quota checks on concurrent runs through the real middleware, porcupine linearizability of Inc/Count histories, -race on readers during interval resets",
         "reference model + porcupine linearizability + Go race detector"),
}

def have(pid):
    return all(os.path.exists(os.path.join(V, "harness", u["hdir"], f + "_test.go")) for u in R.units_of(pid) for f in u["files"])

def hook_commits():
    try:
        out = subprocess.run(["git", "-C", "/repo", "log", "--format=%H %s"], stdout=subprocess.PIPE, text=True).stdout
        return [l.split()[0] for l in out.splitlines() if " verif-hook:" in l or l.split(" ", 1)[1].startswith("verif:")]
    except Exception:
        return []

checks, na = [], []
for pid in R.PROPS:
    if have(pid):
        txt, tech = TEXT[pid]
        checks.append(dict(property_id=pid, quick_cmd="python3 run.py %s quick" % pid, thorough_cmd="python3 run.py %s thorough" % pid,
                           evidence_file="evidence/%s.json" % pid, replay_cmd_template="python3 run.py %s --replay {path}" % pid,
                           engine="run.py", level_claimed=dict(category="exploration", text=txt + ". Decides the property for the executions driven (counts and samples in the evidence file), not for all inputs.", design_ref="DESIGN.md §4 " + pid),
                           level_note="trusted base: Go toolchain/runtime (incl. race detector), mp4ff, etree, encoding/xml, porcupine, /verif/vlib; monitors are injected into the repo package by go build -overlay and use only identifiers the repo's own tests use",
                           technique=tech))
    else:
        na.append(dict(property_id=pid, reason="monitor not built yet (runtime-monitoring design in DESIGN.md §4 %s); not claimed until its check exists and is silent on the unchanged tree" % pid))
man = dict(version=1, setup_cmd="python3 run.py --setup",
           hooks=dict(guard="verif", enable="go test -c -tags verif -overlay=<harness files> -modfile=<scratch go.mod> <repo package> (run.py build())",
                      baseline_off_cmd="cd /repo && GOFLAGS=-mod=mod GOPROXY=off GOSUMDB=off go test -json -vet=off -count=1 -timeout 25m ./...",
                      source_commits=hook_commits(), add_only=True),
           engines=[dict(name="run.py", path="run.py", serves_properties=[c["property_id"] for c in checks],
                         kind_free_text="python driver: builds Go monitors from /verif/harness into the /repo package via -overlay, runs them as child processes (crash-resume, race-log parsing), applies known-findings.txt, writes evidence")],
           checks=checks, not_applicable=na,
           notes="Every check rebuilds from /repo's working tree. exit 0 held / 1 VIOLATION / 2 broken-or-inconclusive. See DESIGN.md.")
json.dump(man, open(os.path.join(V, "MANIFEST.json"), "w"), indent=1)
print("claimed:", [c["property_id"] for c in checks])
