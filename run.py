#!/usr/bin/env python3
"""Driver for the livesim2 runtime monitors.

usage: run.py <ID> quick|thorough            run the check for one property
       run.py <ID> --replay <file>            re-run the case(s) stored in a replay file
       run.py --setup                         warm the build cache (all monitor binaries)
       run.py --list                          list properties

exit 0: property held on everything explored (KNOWN-FINDING lines may be printed)
exit 1: violation not listed in known-findings.txt ("VIOLATION property=<id> replay=<path>")
exit 2: BROKEN / INCONCLUSIVE (harness could not be built, observed nothing, watchdog)
"""
import json, os, re, shutil, subprocess, sys, tempfile, time, hashlib, signal

VERIF = os.path.dirname(os.path.abspath(__file__))
REPO = os.environ.get("VERIF_REPO", "/repo")
MOD = "github.com/Dash-Industry-Forum/livesim2"

LIVESIM = "cmd/livesim2/app"
RECV = "cmd/cmaf-ingest-receiver/app"

# property table: pkg = package directory in the repo the monitor is injected into,
# files = harness files (under harness/<hdir>/) that make up the monitor,
# race = build with -race, resume = restart the child after a crash (crash = violation),
# tmo = outer watchdog seconds (quick, thorough)
def REASK(kind):
    """extra unit: the race-detector build of the request families that belong to a sequential monitor (harness/livesim/reask_test.go)."""
    return dict(pkg=LIVESIM, hdir="livesim", files=["common", "reask"], test="TestVerifReaskRace", race=True, env=dict(VERIF_REASK_KIND=kind))


PROPS = {
    "C01": dict(pkg=LIVESIM, hdir="livesim", files=["common", "c01"], race=False, tmo=(600, 3600),
                extra=[REASK("segments")]),
    "C02": dict(pkg=LIVESIM, hdir="livesim", files=["common", "c02"], race=False, tmo=(600, 3600),
                extra=[REASK("mpd")]),
    "C03": dict(pkg=LIVESIM, hdir="livesim", files=["common", "c03"], race=False, tmo=(600, 3600),
                extra=[REASK("audio")]),
    "C04": dict(pkg=LIVESIM, hdir="livesim", files=["common", "c04"], race=False, tmo=(600, 3600),
                extra=[REASK("availability")]),
    "C05": dict(pkg=LIVESIM, hdir="livesim", files=["common", "c05"], race=False, tmo=(600, 3600),
                extra=[REASK("mpd")]),
    "C06": dict(pkg=LIVESIM, hdir="livesim", files=["common", "c06"], race=False, tmo=(600, 3600),
                extra=[REASK("mpd")]),
    # C07 extra units: the same collision-prone request table answered by two separate processes in opposite orders
    "C07": dict(pkg=LIVESIM, hdir="livesim", files=["common", "c07"], race=True, resume=True, tmo=(900, 3600),
                extra=[dict(pkg=LIVESIM, hdir="livesim", files=["common", "c07"], test="TestVerifC07X", env=dict(VERIF_C07X_ORDER="fwd")),
                       dict(pkg=LIVESIM, hdir="livesim", files=["common", "c07"], test="TestVerifC07X", env=dict(VERIF_C07X_ORDER="rev"))]),
    "C08": dict(pkg=LIVESIM, hdir="livesim", files=["common", "c08"], race=False, resume=True, tmo=(900, 3600),
                extra=[dict(pkg=RECV, hdir="receiver", files=["common", "c08r"], test="TestVerifC08R"),
                       dict(pkg="pkg/chunkparser", hdir="chunkparser", files=["common", "c08p"], test="TestVerifC08P"),
                       REASK("patterns")]),
    "C09": dict(pkg=LIVESIM, hdir="livesim", files=["common", "c09"], race=False, tmo=(600, 3600),
                extra=[REASK("chunked")]),
    "C10": dict(pkg=LIVESIM, hdir="livesim", files=["common", "c10"], race=False, tmo=(600, 3600),
                extra=[REASK("drm")]),
    "C11": dict(pkg=LIVESIM, hdir="livesim", files=["common", "c11"], race=False, tmo=(600, 3600),
                extra=[dict(pkg="pkg/patch", hdir="patch", files=["common", "c11p"], test="TestVerifC11P"), REASK("patch")]),
    "C12": dict(pkg=LIVESIM, hdir="livesim", files=["common", "c12"], race=False, tmo=(600, 3600),
                extra=[REASK("timesubs")]),
    "C13": dict(pkg=LIVESIM, hdir="livesim", files=["common", "c13"], race=False, tmo=(600, 3600),
                extra=[REASK("scte35")]),
    "C14": dict(pkg=LIVESIM, hdir="livesim", files=["common", "c14"], race=False, tmo=(600, 3600),
                extra=[REASK("statuscode")]),
    "C15": dict(pkg=LIVESIM, hdir="livesim", files=["common", "c15"], race=False, resume=True, tmo=(900, 3600)),
    "C16": dict(pkg=LIVESIM, hdir="livesim", files=["common", "c16"], race=True, resume=True, tmo=(900, 3600)),
    "C17": dict(pkg=RECV, hdir="receiver", files=["common", "c17"], race=False, resume=True, tmo=(900, 3600)),
    "C18": dict(pkg="pkg/chunkparser", hdir="chunkparser", files=["common", "c18"], race=False, tmo=(600, 3600)),
    "C19": dict(pkg=RECV, hdir="receiver", files=["common", "c19"], race=True, resume=True, tmo=(900, 3600)),
    "C20": dict(pkg=LIVESIM, hdir="livesim", files=["common", "c20"], race=True, tmo=(600, 3600)),
}

GOENV = dict(GOFLAGS="-mod=mod", GOPROXY="off", GOSUMDB="off", GOTOOLCHAIN="local")
MAX_DEATHS = 400


def log(*a):
    print(*a, flush=True)


def goenv():
    e = dict(os.environ)
    e.update(GOENV)
    return e


def make_modfile(w):
    """$W/go.mod = repo go.mod + porcupine + vlib replace; go.sum next to it."""
    src = open(os.path.join(REPO, "go.mod")).read()
    src += "\nrequire github.com/anishathalye/porcupine v1.3.0\n"
    src += "require verif.local/vlib v0.0.0\n"
    src += "replace verif.local/vlib => %s/vlib\n" % VERIF
    open(os.path.join(w, "go.mod"), "w").write(src)
    shutil.copy(os.path.join(REPO, "go.sum"), os.path.join(w, "go.sum"))
    # sums for modules the repo does not use (porcupine): taken from the committed list
    extra = os.path.join(VERIF, "vlib", "extra.sum")
    if os.path.exists(extra):
        with open(os.path.join(w, "go.sum"), "a") as f:
            f.write(open(extra).read())


def build(w, unit, race, tag):
    """go test -c of repo package unit['pkg'] with the harness files overlaid. returns path or None."""
    pkgdir = os.path.join(REPO, unit["pkg"])
    repl = {}
    for name in unit["files"]:
        srcf = os.path.join(VERIF, "harness", unit["hdir"], name + "_test.go")
        if not os.path.exists(srcf):
            log("BROKEN: missing harness file", srcf)
            return None
        repl[os.path.join(pkgdir, "zz_verif_%s_test.go" % name)] = srcf
    ov = os.path.join(w, "overlay_%s.json" % tag)
    json.dump({"Replace": repl}, open(ov, "w"))
    out = os.path.join(w, "%s.test" % tag)
    cmd = ["go", "test", "-c", "-tags", "verif", "-vet=off",
           "-modfile=" + os.path.join(w, "go.mod"), "-overlay=" + ov, "-o", out]
    if race:
        cmd.insert(3, "-race")
    cmd.append(pkgdir)
    t0 = time.time()
    p = subprocess.run(cmd, cwd=REPO, env=goenv(), stdout=subprocess.PIPE, stderr=subprocess.STDOUT, text=True)
    if p.returncode != 0 or not os.path.exists(out):
        log("BROKEN: build failed for %s (%s)" % (tag, unit["pkg"]))
        log(p.stdout[-4000:])
        return None
    log("built %s in %.1fs%s" % (tag, time.time() - t0, " (-race)" if race else ""))
    return out


REPO_FRAME = re.compile(r"^\s*(" + re.escape(MOD) + r"/\S+?)\(")


def is_harness_file(line):
    return "zz_verif_" in line or "/verif/" in line or "verif.local/" in line


def first_repo_func(stack_lines):
    """stack_lines: alternating 'func(...)' / '\tfile:line' lines; first non-harness repo function."""
    for i, l in enumerate(stack_lines):
        m = re.match(r"^\s*(" + re.escape(MOD) + r"/[^\s(]+(?:\([^)]*\))?[^\s(]*)\(", l)
        if not m:
            continue
        nxt = stack_lines[i + 1] if i + 1 < len(stack_lines) else ""
        if is_harness_file(nxt) or "zz_verif" in l or ".vf" in l:
            continue
        fn = m.group(1)
        fn = fn.replace(MOD + "/", "")
        fn = re.sub(r"\.func\d+(\.\d+)*$", "", fn)
        return fn
    return None


def crash_signature(text):
    """signature of a process-ending panic / fatal error: kind + first repo function of the first stack."""
    lines = text.splitlines()
    for i, l in enumerate(lines):
        if l.startswith("panic: ") or l.startswith("fatal error: "):
            kind = l.strip()
            kind = re.sub(r"0x[0-9a-f]+", "0x", kind)
            kind = re.sub(r"\d+", "N", kind)
            kind = kind[:100]
            # skip to first goroutine stack after it
            fn = first_repo_func(lines[i + 1:i + 200])
            return "crash:%s@%s" % (kind, fn or "?")
    return None


def parse_races(w):
    """returns list of (sig, text) de-duplicated by innermost non-harness repo function pair."""
    out = {}
    harness_only = 0
    for fn in os.listdir(w):
        if not fn.startswith("race."):
            continue
        txt = open(os.path.join(w, fn), errors="replace").read()
        for blk in txt.split("=================="):
            if "WARNING: DATA RACE" not in blk:
                continue
            parts = re.split(r"\n(?=(?:Previous )?(?:[Rr]ead|[Ww]rite|atomic [a-z]+) (?:at|of) )", blk)
            funcs = []
            for p in parts:
                if not re.match(r"^(?:Previous )?(?:[Rr]ead|[Ww]rite|atomic)", p.strip()):
                    continue
                # cut at "Goroutine N (running) created at"
                p = re.split(r"\nGoroutine \d+ ", p)[0]
                f = first_repo_func(p.splitlines()[1:])
                funcs.append(f or "?")
            if not funcs or all(f == "?" for f in funcs):
                harness_only += 1
                key = "race:harness-only"
            else:
                key = "race:" + "|".join(sorted(set(funcs)))
            if key not in out:
                out[key] = dict(sig=key, count=0, example=blk.strip()[:6000])
            out[key]["count"] += 1
    return list(out.values())


def load_known():
    kf = {}
    fixed = []
    p = os.path.join(VERIF, "known-findings.txt")
    if os.path.exists(p):
        for l in open(p):
            l = l.strip()
            if l.startswith("finding:"):
                m = re.match(r"finding:\s+property=(\S+)\s+sig=(\S+)\s*(.*)", l)
                if m:
                    kf[(m.group(1), m.group(2))] = m.group(3)
            elif l.startswith("fixed:"):
                fixed.append(l)
    return kf


def merge(acc, snap):
    acc["evaluations"] += snap.get("evaluations", 0)
    for k, v in (snap.get("classes") or {}).items():
        acc["classes"][k] = acc["classes"].get(k, 0) + v
    for k, v in (snap.get("counters") or {}).items():
        acc["counters"][k] = acc["counters"].get(k, 0) + v
    for k, v in (snap.get("inconclusive") or {}).items():
        acc["inconclusive"][k] = acc["inconclusive"].get(k, 0) + v
    for s in (snap.get("samples") or []):
        if len(acc["samples"]) < 14:
            acc["samples"].append(s)
    for v in (snap.get("violations") or []):
        a = acc["violations"].setdefault(v["sig"], dict(sig=v["sig"], count=0, examples=[]))
        a["count"] += v.get("count", 1)
        for e in (v.get("examples") or []):
            if len(a["examples"]) < 3:
                a["examples"].append(e)
    if snap.get("rule") and snap["rule"] not in acc["rule"]:
        acc["rule"] = (acc["rule"] + " || " if acc["rule"] else "") + snap["rule"]
    for a in (snap.get("assumptions") or []):
        if a not in acc["assumptions"]:
            acc["assumptions"].append(a)
    acc["complete"] = acc["complete"] and snap.get("complete", False)


def run_unit(w, binpath, pkg, test, pid, tier, seed, tmo, resume_ok, acc, replay=None, tag="m", uenv=None):
    """run one monitor binary (restarting after crashes); merge its snapshots into acc."""
    resume = 0
    deaths = 0
    child = 0
    while True:
        child += 1
        outp = os.path.join(w, "%s_out_%d.json" % (tag, child))
        prog = os.path.join(w, "%s_progress_%d.txt" % (tag, child))
        logf = os.path.join(w, "%s_log_%d.txt" % (tag, child))
        errf = os.path.join(w, "%s_err_%d.txt" % (tag, child))
        env = dict(os.environ)
        env.update(VERIF_ID=pid, VERIF_TIER=tier, VERIF_SEED=str(seed), VERIF_OUT=outp, VERIF_PROGRESS=prog,
                   VERIF_RESUME=str(resume), VERIF_REPO=REPO, VERIF_DIR=VERIF, VERIF_SCRATCH=w,
                   GORACE="halt_on_error=0 log_path=%s/race" % w)
        env["VERIF_ERRFILE"] = errf
        env.update(uenv or {})
        if replay:
            env["VERIF_REPLAY"] = replay
        cmd = ["timeout", "-s", "QUIT", str(tmo), binpath, "-test.run", "^%s$" % test, "-test.timeout", "0", "-test.v"]
        with open(logf, "w") as lf, open(errf, "w") as ef:
            p = subprocess.run(cmd, cwd=os.path.join(REPO, pkg), env=env, stdout=lf, stderr=ef)
        snap = None
        if os.path.exists(outp):
            try:
                snap = json.load(open(outp))
            except Exception as e:
                snap = None
        if snap:
            merge(acc, snap)
        text = open(logf, errors="replace").read() + "\n" + open(errf, errors="replace").read()
        if replay:
            log(text[-6000:])
        if snap and snap.get("complete"):
            acc["complete_units"] += 1
            if p.returncode != 0 and not snap.get("violations") and not re.search(r"DATA RACE", text):
                # go test exits 1 on t.Fail or with race reports; anything else is unexpected
                pass
            return True
        # child did not finish: crash or watchdog
        last = None
        if os.path.exists(prog):
            for l in open(prog, errors="replace"):
                m = re.match(r"case (\d+) (.*)", l)
                if m:
                    last = (int(m.group(1)), m.group(2).strip())
        if p.returncode == 124 or p.returncode == 131 or "SIGQUIT" in text[-20000:] and "panic:" not in text:
            acc["inconclusive"]["outer-watchdog"] = acc["inconclusive"].get("outer-watchdog", 0) + 1
            acc["watchdog_tail"] = text[-3000:]
            log("INCONCLUSIVE: outer watchdog (%ds) fired; last case: %s" % (tmo, last))
            return False
        sig = crash_signature(text)
        if sig is None:
            log("BROKEN: monitor child ended (rc=%d) without result and without panic; tail:" % p.returncode)
            log(text[-3000:])
            acc["broken"] = True
            return False
        deaths += 1
        acc["counters"]["children_died"] = acc["counters"].get("children_died", 0) + 1
        a = acc["violations"].setdefault(sig, dict(sig=sig, count=0, examples=[]))
        a["count"] += 1
        if len(a["examples"]) < 3:
            # keep the panic message and the first stack
            i = max(text.find("panic: "), 0)
            j = text.find("fatal error: ")
            if j >= 0 and (i == 0 or j < i):
                i = j
            a["examples"].append(dict(case=last[1] if last else "?", case_index=last[0] if last else -1,
                                      output=text[i:i + 2500]))
        if not resume_ok or last is None or deaths >= MAX_DEATHS:
            if deaths >= MAX_DEATHS:
                log("BROKEN: more than %d child deaths" % MAX_DEATHS)
                acc["broken"] = True
            else:
                acc["complete"] = False
                acc["died_without_resume"] = True
            return False
        resume = last[0] + 1


def main():
    args = sys.argv[1:]
    if not args or args[0] in ("-h", "--help"):
        print(__doc__)
        return 0
    if args[0] == "--list":
        for k in PROPS:
            print(k)
        return 0
    if args[0] == "--setup":
        return setup()
    pid = args[0]
    if pid not in PROPS:
        log("unknown property", pid)
        return 2
    replay = None
    tier = os.environ.get("VERIF_TIER", "quick")
    if len(args) > 1:
        if args[1] == "--replay":
            # the case list is a function of (tier, seed): re-run the run that produced the replay file and show the child's output
            replay = os.path.abspath(args[2])
            tier = "quick"
            try:
                rj = json.load(open(replay))
                tier = rj.get("tier", tier)
                os.environ["VERIF_SEED"] = str(rj.get("seed", os.environ.get("VERIF_SEED", "1")))
            except Exception as e:
                log("cannot read replay file:", e)
                return 2
        else:
            tier = args[1]
    if tier not in ("quick", "thorough"):
        log("bad tier", tier)
        return 2
    try:
        seed = int(os.environ.get("VERIF_SEED", "1"))
    except ValueError:
        seed = 1
    return check(pid, tier, seed, replay)


def units_of(pid):
    P = PROPS[pid]
    units = [dict(pkg=P["pkg"], hdir=P["hdir"], files=P["files"], test="TestVerif" + pid)]
    units += P.get("extra", [])
    return units


def setup():
    w = tempfile.mkdtemp(prefix="verif-setup-")
    ok = True
    try:
        make_modfile(w)
        seen = set()
        for pid, P in PROPS.items():
            for i, u in enumerate(units_of(pid)):
                present = all(os.path.exists(os.path.join(VERIF, "harness", u["hdir"], f + "_test.go")) for f in u["files"])
                if not present:
                    continue
                urace = u.get("race", P.get("race", False))
                key = (u["pkg"], tuple(u["files"]), urace)
                if key in seen:
                    continue
                seen.add(key)
                b = build(w, u, urace, "%s_%d" % (pid, i))
                ok = ok and b is not None
                if b:
                    os.remove(b)
    finally:
        shutil.rmtree(w, ignore_errors=True)
    return 0 if ok else 2


def check(pid, tier, seed, replay):
    P = PROPS[pid]
    t0 = time.time()
    w = tempfile.mkdtemp(prefix="verif-%s-" % pid)
    acc = dict(evaluations=0, classes={}, counters={}, inconclusive={}, samples=[], violations={}, rule="",
               assumptions=[], complete=True, complete_units=0, broken=False)
    try:
        make_modfile(w)
        units = units_of(pid)
        bins = []
        for i, u in enumerate(units):
            b = build(w, u, u.get("race", P.get("race", False)), "%s_%d" % (pid, i))
            if b is None:
                return finish(pid, tier, seed, acc, t0, w, broken="build failed")
            bins.append(b)
        tmo = P["tmo"][0 if tier == "quick" else 1]
        for i, (u, b) in enumerate(zip(units, bins)):
            ok = run_unit(w, b, u["pkg"], u["test"], pid, tier, seed, tmo, P.get("resume", False), acc, replay, tag="u%d" % i, uenv=u.get("env"))
        races = parse_races(w) if any(u.get("race", P.get("race", False)) for u in units) else []
        for r in races:
            a = acc["violations"].setdefault(r["sig"], dict(sig=r["sig"], count=0, examples=[]))
            a["count"] += r["count"]
            if len(a["examples"]) < 1:
                a["examples"].append(dict(report=r["example"]))
        acc["counters"]["race_reports"] = sum(r["count"] for r in races)
        return finish(pid, tier, seed, acc, t0, w)
    finally:
        shutil.rmtree(w, ignore_errors=True)


def finish(pid, tier, seed, acc, t0, w, broken=None):
    known = load_known()
    wall = time.time() - t0
    os.makedirs(os.path.join(VERIF, "evidence"), exist_ok=True)
    os.makedirs(os.path.join(VERIF, "replays"), exist_ok=True)
    import glob
    for old in glob.glob(os.path.join(VERIF, "replays", "%s-%d-*.json" % (pid, seed))):
        os.remove(old)
    new_viol, known_hits = [], []
    for sig, v in sorted(acc["violations"].items()):
        if (pid, sig) in known:
            known_hits.append((sig, v, known[(pid, sig)]))
        else:
            new_viol.append((sig, v))
    distinct = len([k for k in acc["classes"]])
    incon = sum(acc["inconclusive"].values())
    cov = dict(evaluations=acc["evaluations"], distinct_nontrivial=distinct, rule=acc["rule"],
               samples=acc["samples"][:14], counters=acc["counters"], inconclusive=acc["inconclusive"],
               known_findings_hit={s: v["count"] for s, v, _ in known_hits},
               new_violation_signatures=[s for s, _ in new_viol],
               class_histogram_top=dict(sorted(acc["classes"].items(), key=lambda kv: -kv[1])[:12]),
               exhaustive=False)
    ev = dict(property_id=pid, tier=tier, seed=seed, level="exploration", coverage=cov,
              assumptions=acc["assumptions"], wall_s=round(wall, 2), violations=len(new_viol))
    rc = 0
    if broken or acc.get("broken"):
        rc = 2
    elif new_viol:
        rc = 1
    elif not acc["samples"]:
        log("BROKEN: monitor recorded no sample cases")
        rc = 2
    elif acc["evaluations"] < 1 or distinct < 2:
        log("BROKEN: monitor observed too little (evaluations=%d distinct=%d)" % (acc["evaluations"], distinct))
        rc = 2
    elif not acc["complete"] or incon and acc.get("watchdog_tail"):
        log("INCONCLUSIVE: monitor did not complete")
        rc = 2
    for sig, v, what in known_hits:
        log("KNOWN-FINDING: property=%s sig=%s (%d observations) %s" % (pid, sig, v["count"], what))
    for k, (sig, v) in enumerate(new_viol):
        rp = os.path.join(VERIF, "replays", "%s-%d-%d.json" % (pid, seed, k))
        json.dump(dict(property=pid, tier=tier, seed=seed, sig=sig, count=v["count"], examples=v["examples"]),
                  open(rp, "w"), indent=1, default=str)
        log("VIOLATION property=%s replay=%s" % (pid, rp))
        log("  sig=%s count=%d" % (sig, v["count"]))
        for e in v["examples"][:1]:
            log("  example: " + json.dumps(e, default=str)[:1500])
    if rc != 2 or acc["evaluations"] > 0:
        try:
            json.dump(ev, open(os.path.join(VERIF, "evidence", pid + ".json"), "w"), indent=1, default=str)
        except Exception as e:
            log("could not write evidence:", e)
    log("%s %s seed=%d: evaluations=%d distinct=%d known=%d new=%d inconclusive=%d wall=%.1fs -> exit %d" % (
        pid, tier, seed, acc["evaluations"], distinct, len(known_hits), len(new_viol), incon, wall, rc))
    return rc


if __name__ == "__main__":
    sys.exit(main())
