#!/usr/bin/env python3
"""confirm_seed.py <ID> <mK>  – independently confirm a seeded change produced by a sub-agent and store it.

In the scratch worktree /tmp/seed/<ID> (never /repo):
  1. pristine tree: demo passes
  2. apply patch: builds, the repository's whole test suite passes, demo fails
Then copies patch.diff, the demo and notes to /verif/seeded/<ID>-<mK>/ and writes meta.json.
The scratch worktree is based on the pinned snapshot commit (without later fix: commits).
"""
import json, os, re, shutil, subprocess, sys

ID, MK = sys.argv[1], sys.argv[2]
WT = os.environ.get("SEED_WT_ROOT", "/tmp/seed") + "/%s" % ID
SRC = os.environ.get("SEED_OUT_ROOT", "/tmp/seedout") + "/%s/%s" % (ID, MK)
DST = "/verif/seeded/%s-%s" % (ID, MK)
env = dict(os.environ, GOFLAGS="-mod=mod", GOPROXY="off", GOSUMDB="off", GOTOOLCHAIN="local")


def sh(cmd, cwd=WT, timeout=1500):
    p = subprocess.run(cmd, shell=True, cwd=cwd, env=env, stdout=subprocess.PIPE, stderr=subprocess.STDOUT, text=True, timeout=timeout)
    return p.returncode, p.stdout


def clean():
    sh("git checkout -- . && git clean -fdq")


demo = open(os.path.join(SRC, "demo_test.go")).read()
m = re.search(r"((?:cmd|pkg|internal)/[A-Za-z0-9_./-]+?)/?[\s)(,]", demo[:1500])
if not m:
    print("cannot find target dir in demo header")
    sys.exit(2)
pkgdir = m.group(1).rstrip("/")
tm = re.search(r"func (TestSeedDemo\w+)\(", demo)
test = tm.group(1)
res = dict(property=ID, change=MK, demo_dir=pkgdir, demo_test=test)
clean()
demo_dst = os.path.join(WT, pkgdir, "zz_seed_demo_%s_test.go" % MK)
shutil.copy(os.path.join(SRC, "demo_test.go"), demo_dst)
rc, out = sh("go test -vet=off -count=1 -run '^%s$' ./%s/" % (test, pkgdir))
res["demo_passes_on_pristine"] = rc == 0
res["demo_pristine_tail"] = out[-600:]
rc, out = sh("git apply %s/patch.diff" % SRC)
if rc != 0:
    print("patch does not apply:", out)
    clean()
    sys.exit(3)
rc, out = sh("git diff --stat -- . ':!*_test.go'")
res["diffstat"] = out.strip().splitlines()[-1] if out.strip() else ""
rc, out = sh("go test -vet=off -count=1 -run '^%s$' ./%s/" % (test, pkgdir))
res["demo_fails_with_change"] = rc != 0
res["demo_changed_tail"] = out[-1200:]
os.remove(demo_dst)
rc, out = sh("go build ./... && go test -vet=off -count=1 ./...")
res["suite_passes_with_change"] = rc == 0
res["suite_tail"] = out[-800:]
clean()
ok = res["demo_passes_on_pristine"] and res["demo_fails_with_change"] and res["suite_passes_with_change"]
res["confirmed"] = ok
print(json.dumps({k: v for k, v in res.items() if not k.endswith("_tail")}, indent=1))
if not ok:
    print(res["demo_pristine_tail"], res["demo_changed_tail"], res["suite_tail"])
    sys.exit(1)
os.makedirs(DST, exist_ok=True)
for f in ("patch.diff", "patch_rebased.diff", "demo_test.go", "notes.md"):
    if os.path.exists(os.path.join(SRC, f)):
        shutil.copy(os.path.join(SRC, f), os.path.join(DST, f))
notes = open(os.path.join(SRC, "notes.md")).read() if os.path.exists(os.path.join(SRC, "notes.md")) else ""
meta = dict(property=ID, id="%s-%s" % (ID, MK), breaks=ID,
            needs_to_manifest="see notes.md (written by the seeding sub-agent)",
            confirmed_by="selftest/confirm_seed.py in scratch worktree %s @ %s" % (WT, sh("git rev-parse --short HEAD")[1].strip()),
            ran=["go test -run ^%s$ ./%s/ on pristine tree -> pass" % (test, pkgdir),
                 "git apply patch.diff; go test -run ^%s$ ./%s/ -> FAIL" % (test, pkgdir),
                 "go build ./... && go test -vet=off -count=1 ./... with change -> pass"],
            demo_dir=pkgdir, demo_test=test, diffstat=res["diffstat"], detected_by=None)
json.dump(meta, open(os.path.join(DST, "meta.json"), "w"), indent=1)
print("stored", DST)
