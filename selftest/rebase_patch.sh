#!/bin/bash
# rebase_patch.sh <seeded dir>: if patch.diff does not apply to /repo HEAD, try GNU patch with fuzz and store patch_rebased.diff
D=$(readlink -f $1)
cd /repo || exit 2
[ -n "$(git status --porcelain)" ] && { echo "repo dirty"; exit 2; }
if git apply --check $D/patch.diff 2>/dev/null; then echo "applies cleanly"; exit 0; fi
if patch -p1 -F3 --no-backup-if-mismatch -s < $D/patch.diff; then
  export GOFLAGS=-mod=mod GOPROXY=off GOSUMDB=off GOTOOLCHAIN=local
  if go build ./... ; then git diff > $D/patch_rebased.diff; echo "rebased with fuzz -> patch_rebased.diff"; else echo "rebased patch does not build"; fi
else echo "CANNOT REBASE"; fi
find . -name '*.rej' -o -name '*.orig' | xargs rm -f
git checkout HEAD -- . ; git reset -q; git clean -fdq
