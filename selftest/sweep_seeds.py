#!/usr/bin/env python3
"""sweep_seeds.py [--tier quick] [ids...]
For every seeded change under /verif/seeded: apply it to /repo (patch_rebased.diff if present, else patch.diff,
else try a fuzzy rebase), run the owning property's check, undo, and record in meta.json what the check reported.
/repo must be clean; it is restored after every seed.  Writes /verif/seeded/SUMMARY.md.
"""
import json, os, re, subprocess, sys, glob

V = "/verif"
ENV = dict(os.environ, GOFLAGS="-mod=mod", GOPROXY="off", GOSUMDB="off", GOTOOLCHAIN="local")


def sh(cmd, **kw):
    return subprocess.run(cmd, shell=True, stdout=subprocess.PIPE, stderr=subprocess.STDOUT, text=True, env=ENV, **kw)


def undo():
    sh("git checkout HEAD -- . ; git reset -q; git clean -fdq", cwd="/repo")


def clean():
    return sh("git status --porcelain", cwd="/repo").stdout.strip() == ""


def notes_fields(d):
    title, need = "", ""
    try:
        txt = open(d + "/notes.md").read()
    except OSError:
        return title, need
    lines = txt.splitlines()
    if lines:
        title = lines[0].lstrip("# ").strip()
    m = re.search(r"(?im)^(needed to manifest|needs? to manifest|what it needs to manifest)[^\n]*:?(.*?)(?:\n\s*\n|\n\(a\)|\Z)", txt, re.S)
    if m:
        need = " ".join((m.group(0)).split())[:900]
    return title, need


def main():
    tier = "quick"
    args = sys.argv[1:]
    if args[:1] == ["--tier"]:
        tier = args[1]
        args = args[2:]
    dirs = sorted(glob.glob(V + "/seeded/C*-m*"))
    if args:
        dirs = [d for d in dirs if os.path.basename(d) in args or os.path.basename(d).split("-")[0] in args]
    if not clean():
        print("repo dirty")
        return 2
    head = sh("git rev-parse --short HEAD", cwd="/repo").stdout.strip()
    rows = []
    for d in dirs:
        sid = os.path.basename(d)
        pid = sid.split("-")[0]
        meta = json.load(open(d + "/meta.json"))
        patch = None
        for cand in ("patch_rebased.diff", "patch.diff"):
            p = d + "/" + cand
            if os.path.exists(p) and sh("git apply --check " + p, cwd="/repo").returncode == 0:
                patch = p
                break
        if patch is None:
            sh(V + "/selftest/rebase_patch.sh " + d)
            p = d + "/patch_rebased.diff"
            if os.path.exists(p) and sh("git apply --check " + p, cwd="/repo").returncode == 0:
                patch = p
        res = dict(tier=tier, repo_head=head)
        if patch is None:
            res.update(status="patch-does-not-apply-to-current-tree", rc=None, sigs=[])
        else:
            sh("git apply " + patch, cwd="/repo")
            b = sh("go build ./... ", cwd="/repo")
            if b.returncode != 0:
                res.update(status="does-not-build-on-current-tree", rc=None, sigs=[], patch=os.path.basename(patch))
            else:
                r = sh("python3 run.py %s %s" % (pid, tier), cwd=V)
                sigs = re.findall(r"^\s+sig=(.*?) count=(\d+)$", r.stdout, re.M)
                res.update(rc=r.returncode, patch=os.path.basename(patch), sigs=[s for s, _ in sigs][:8], n_sigs=len(sigs),
                           status="detected" if r.returncode == 1 else ("missed" if r.returncode == 0 else "broken-or-inconclusive"))
                if r.returncode not in (0, 1):
                    res["tail"] = r.stdout[-600:]
            undo()
        if not clean():
            print("REPO NOT CLEAN after", sid)
            return 2
        title, need = notes_fields(d)
        if title:
            meta["what_it_changes"] = title
        if need:
            meta["needs_to_manifest"] = need
        meta["detected_by"] = res
        json.dump(meta, open(d + "/meta.json", "w"), indent=1)
        rows.append((sid, title, res))
        print(sid, res.get("status"), res.get("rc"), (res.get("sigs") or [""])[0][:110], flush=True)
    allrows = []
    for d in sorted(glob.glob(V + "/seeded/C*-m*")):
        m = json.load(open(d + "/meta.json"))
        allrows.append((os.path.basename(d), m.get("what_it_changes", ""), m.get("detected_by") or {}, m.get("note", "")))
    with open(V + "/seeded/SUMMARY.md", "w") as f:
        f.write("# Seeded changes and what the owning check reported\n\n")
        f.write("Produced by selftest/sweep_seeds.py: apply the change to /repo, run `python3 run.py <ID> <tier>`, undo.\n\n")
        f.write("| seed | change | tier | repo head | status | first signature | note |\n|---|---|---|---|---|---|---|\n")
        for sid, title, res, note in allrows:
            f.write("| %s | %s | %s | %s | %s | `%s` | %s |\n" % (sid, title.replace("|", "/")[:140], res.get("tier"), res.get("repo_head"), res.get("status"),
                                                         (res.get("sigs") or ["-"])[0][:140].replace("|", "/"), note.replace("|", "/")))
    return 0


sys.exit(main())
