#!/bin/bash
# usage: try_patch.sh <ID> <patch.diff> [tier]   - apply a seeded change to /repo, run the check, undo
ID=$1; P=$(readlink -f $2); TIER=${3:-quick}
cd /repo || exit 2
if [ -n "$(git status --porcelain)" ]; then echo "repo dirty"; exit 2; fi
git apply "$P" || { echo "PATCH DOES NOT APPLY"; exit 3; }
cd /verif && ./run.py $ID $TIER > /tmp/try_$ID.log 2>&1; rc=$?
git -C /repo checkout HEAD -- . ; git -C /repo reset -q; git -C /repo clean -fdq
if [ -n "$(git -C /repo status --porcelain)" ]; then echo "REPO NOT CLEAN AFTER UNDO"; fi
grep -E "VIOLATION|KNOWN-FINDING|sig=|BROKEN|INCONCLUSIVE|-> exit" /tmp/try_$ID.log | head -${LINES_MAX:-12}
echo "rc=$rc"
