#!/bin/bash
# usage: try_patch.sh <ID> <patch.diff> [tier]   - apply a seeded change to /repo, run the check, undo
ID=$1; P=$2; TIER=${3:-quick}
cd /repo || exit 2
if ! git diff --quiet; then echo "repo dirty"; exit 2; fi
git apply "$P" || { echo "PATCH DOES NOT APPLY"; exit 3; }
cd /verif && ./run.py $ID $TIER > /tmp/try_$ID.log 2>&1; rc=$?
git -C /repo checkout -- . ; git -C /repo clean -fdq
grep -E "VIOLATION|KNOWN-FINDING|sig=|BROKEN|INCONCLUSIVE|-> exit" /tmp/try_$ID.log | head -12
echo "rc=$rc"
