module verif.local/vlib

go 1.23.0

require (
	github.com/Eyevinn/mp4ff v0.47.0
	github.com/anishathalye/porcupine v1.3.0
	github.com/beevik/etree v1.5.0
)
