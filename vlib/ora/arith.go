package ora

import "math/bits"

func mul64(a, b uint64) (hi, lo uint64) { return bits.Mul64(a, b) }

func div128(hi, lo, c uint64) (q, r uint64) {
	if hi >= c {
		panic("ora: 128-bit quotient overflow")
	}
	return bits.Div64(hi, lo, c)
}
