package ora

import (
	"bytes"
	"encoding/base64"
	"encoding/hex"
	"encoding/xml"
	"fmt"
	"os"
	"strings"

	"github.com/Eyevinn/mp4ff/bits"
	"github.com/Eyevinn/mp4ff/mp4"
)

// ---------- decrypt-and-compare helpers (trusted base: mp4ff's decryptor) ----------

// ProtectionInfo of a served init segment.
type ProtectionInfo struct {
	Protected bool
	Scheme    string
	KIDHex    string // 32 hex digits
}

func InitProtection(initBytes []byte) (*ProtectionInfo, error) {
	f, err := mp4.DecodeFile(bytes.NewReader(initBytes))
	if err != nil || f.Init == nil {
		return nil, fmt.Errorf("init: %v", err)
	}
	pi := &ProtectionInfo{}
	for _, trak := range f.Init.Moov.Traks {
		for _, c := range trak.Mdia.Minf.Stbl.Stsd.Children {
			var sinf *mp4.SinfBox
			switch b := c.(type) {
			case *mp4.VisualSampleEntryBox:
				if b.Type() == "encv" {
					sinf = b.Sinf
				}
			case *mp4.AudioSampleEntryBox:
				if b.Type() == "enca" {
					sinf = b.Sinf
				}
			}
			if sinf != nil {
				pi.Protected = true
				if sinf.Schm != nil {
					pi.Scheme = sinf.Schm.SchemeType
				}
				if sinf.Schi != nil && sinf.Schi.Tenc != nil {
					pi.KIDHex = hex.EncodeToString(sinf.Schi.Tenc.DefaultKID)
				}
			}
		}
	}
	return pi, nil
}

// DecryptSegment decrypts a served media segment with the served (protected) init segment and key,
// and returns it parsed (sample defaults resolved with the trex of that init).
func DecryptSegment(initBytes, segBytes, key []byte) (*ParsedSeg, error) {
	fi, err := mp4.DecodeFile(bytes.NewReader(initBytes))
	if err != nil || fi.Init == nil {
		return nil, fmt.Errorf("init: %v", err)
	}
	di, err := mp4.DecryptInit(fi.Init)
	if err != nil {
		return nil, fmt.Errorf("DecryptInit: %w", err)
	}
	segCopy := append([]byte{}, segBytes...) // decryption works in place on the decoded buffer
	fs, err := mp4.DecodeFileSR(bits.NewFixedSliceReader(segCopy))
	if err != nil {
		return nil, fmt.Errorf("segment: %w", err)
	}
	var out bytes.Buffer
	for _, sg := range fs.Segments {
		if err := mp4.DecryptSegment(sg, di, key); err != nil {
			return nil, fmt.Errorf("DecryptSegment: %w", err)
		}
		if err := sg.Encode(&out); err != nil {
			return nil, err
		}
	}
	var trex *mp4.TrexBox
	if fi.Init.Moov.Mvex != nil {
		trex = fi.Init.Moov.Mvex.Trex
	}
	return ParseSegment(out.Bytes(), trex)
}

// KIDToHex normalises a default_KID (uuid string with dashes) to 32 lower-case hex digits.
func KIDToHex(s string) string { return strings.ToLower(strings.ReplaceAll(s, "-", "")) }

func B64URLNoPad(b []byte) string { return base64.RawURLEncoding.EncodeToString(b) }

func B64URLDecode(s string) ([]byte, error) {
	s = strings.TrimRight(s, "=")
	s = strings.ReplaceAll(strings.ReplaceAll(s, "+", "-"), "/", "_")
	return base64.RawURLEncoding.DecodeString(s)
}

// ---------- independent CPIX reader ----------

type CPIXKey struct {
	KIDHex string
	Key    []byte
	IV     []byte
	Scheme string
}

type CPIX struct {
	Keys  []CPIXKey
	Usage map[string]string // track type (lower case) -> kid hex
}

func ReadCPIX(path string) (*CPIX, error) {
	raw, err := os.ReadFile(path)
	if err != nil {
		return nil, err
	}
	var x struct {
		Keys []struct {
			KID    string `xml:"kid,attr"`
			IV     string `xml:"explicitIV,attr"`
			Scheme string `xml:"commonEncryptionScheme,attr"`
			Plain  string `xml:"Data>Secret>PlainValue"`
		} `xml:"ContentKeyList>ContentKey"`
		Rules []struct {
			KID  string `xml:"kid,attr"`
			Type string `xml:"intendedTrackType,attr"`
		} `xml:"ContentKeyUsageRuleList>ContentKeyUsageRule"`
	}
	if err := xml.Unmarshal(raw, &x); err != nil {
		return nil, err
	}
	c := &CPIX{Usage: map[string]string{}}
	for _, k := range x.Keys {
		key, err := base64.StdEncoding.DecodeString(strings.TrimSpace(k.Plain))
		if err != nil {
			return nil, err
		}
		iv, _ := base64.StdEncoding.DecodeString(strings.TrimSpace(k.IV))
		c.Keys = append(c.Keys, CPIXKey{KIDToHex(k.KID), key, iv, k.Scheme})
	}
	for _, r := range x.Rules {
		c.Usage[strings.ToLower(r.Type)] = KIDToHex(r.KID)
	}
	return c, nil
}

// KeyFor returns the key the package assigns to a content type.
func (c *CPIX) KeyFor(contentType string) *CPIXKey {
	if len(c.Keys) == 1 {
		return &c.Keys[0]
	}
	kid := c.Usage[contentType]
	for i := range c.Keys {
		if c.Keys[i].KIDHex == kid {
			return &c.Keys[i]
		}
	}
	return nil
}
