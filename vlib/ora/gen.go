package ora

import (
	"bytes"
	"encoding/binary"
	"fmt"
	"os"
	"path/filepath"
	"strings"

	"github.com/Eyevinn/mp4ff/bits"
	"github.com/Eyevinn/mp4ff/mp4"
)

// ---------- generator of synthetic VoD assets with uniquely tagged samples ----------

type GenTrack struct {
	ID          string
	Kind        string // video | audio | image
	Timescale   uint32
	SampleDur   uint32
	SegSamples  []int // samples per segment
	UseTime     bool  // $Time$ + SegmentTimeline, else $Number$
	StartNumber int   // for $Number$ (default 1)
	EndNumber   bool  // write endNumber attribute
	InitFrom    string
	Codecs      string
	FirstTime   uint64 // decode time of the first VoD sample (normally 0)
	Frags       int    // fragments per segment (default 1)
	CopyFrom    string // Kind "text": bundled directory whose init.mp4 and 1.m4s, 2.m4s, ... are copied and re-timed (one sample per segment)
}

type GenAsset struct {
	Name   string // asset path under the vod root
	Tracks []GenTrack
}

func restampInit(src string, timescale uint32) ([]byte, uint32, error) {
	b, err := os.ReadFile(src)
	if err != nil {
		return nil, 0, err
	}
	f, err := mp4.DecodeFile(bytes.NewReader(b))
	if err != nil {
		return nil, 0, err
	}
	init := f.Init
	init.Moov.Trak.Mdia.Mdhd.Timescale = timescale
	init.Moov.Mvex.Trex.DefaultSampleDuration = 0
	init.Moov.Mvex.Trex.DefaultSampleSize = 0
	sw := bits.NewFixedSliceWriter(int(init.Size()))
	if err := init.EncodeSW(sw); err != nil {
		return nil, 0, err
	}
	return sw.Bytes(), init.Moov.Trak.Tkhd.TrackID, nil
}

// SampleTag is the unique id embedded at the start of every generated sample payload.
func SampleTag(asset, rep string, seg, sample int) string {
	return fmt.Sprintf("%s#%s#%d#%d|", asset, rep, seg, sample)
}

func genSegment(asset string, tr *GenTrack, trackID uint32, segIdx int, seqNr uint32, tfdt uint64, n int) ([]byte, error) {
	seg := mp4.NewMediaSegment()
	nfr := tr.Frags
	if nfr <= 0 {
		nfr = 1
	}
	dt := tfdt
	si := 0
	for fi := 0; fi < nfr; fi++ {
		frag, err := mp4.CreateFragment(seqNr, trackID)
		if err != nil {
			return nil, err
		}
		seg.AddFragment(frag)
		cnt := n / nfr
		if fi == nfr-1 {
			cnt = n - si
		}
		for k := 0; k < cnt; k++ {
			tag := SampleTag(asset, tr.ID, segIdx, si)
			payload := make([]byte, len(tag)+8+(si*7+segIdx*3)%23)
			copy(payload, tag)
			binary.BigEndian.PutUint32(payload[len(payload)-4:], uint32(si*2654435761))
			flags := mp4.NonSyncSampleFlags
			if tr.Kind == "audio" || si == 0 {
				flags = mp4.SyncSampleFlags
			}
			cto := int32(0)
			if tr.Kind == "video" && si%3 == 1 {
				cto = int32(tr.SampleDur)
			}
			frag.AddFullSample(mp4.FullSample{Sample: mp4.Sample{Flags: flags, Dur: tr.SampleDur, Size: uint32(len(payload)), CompositionTimeOffset: cto}, DecodeTime: dt, Data: payload})
			dt += uint64(tr.SampleDur)
			si++
		}
	}
	sw := bits.NewFixedSliceWriter(int(seg.Size()))
	if err := seg.EncodeSW(sw); err != nil {
		return nil, err
	}
	return sw.Bytes(), nil
}

// Write creates the asset under root. bundled is the directory with the repository's testdata assets
// (inits are taken from there and re-stamped so that codecs stay parseable).
func (g GenAsset) Write(root, bundled string) error {
	dir := filepath.Join(root, g.Name)
	var asXML []string
	var totalMS uint64
	var videoNominalNum, videoNominalDen uint64
	for _, tr := range g.Tracks {
		if tr.Kind == "video" {
			videoNominalNum, videoNominalDen = uint64(tr.SegSamples[0])*uint64(tr.SampleDur), uint64(tr.Timescale)
			break
		}
	}
	for ti := range g.Tracks {
		tr := &g.Tracks[ti]
		if tr.StartNumber == 0 {
			tr.StartNumber = 1
		}
		if err := os.MkdirAll(filepath.Join(dir, tr.ID), 0755); err != nil {
			return err
		}
		var tl []string
		t := tr.FirstTime
		if tr.Kind == "image" {
			for i, n := range tr.SegSamples {
				_ = n
				b := []byte(SampleTag(g.Name, tr.ID, i, 0) + strings.Repeat("J", 30+i))
				if err := os.WriteFile(filepath.Join(dir, tr.ID, fmt.Sprintf("%d.jpg", tr.StartNumber+i)), b, 0644); err != nil {
					return err
				}
			}
			asXML = append(asXML, fmt.Sprintf(`    <AdaptationSet mimeType="image/jpeg" contentType="image">
      <SegmentTemplate media="$RepresentationID$/$Number$.jpg" duration="%d" timescale="%d" startNumber="%d"/>
      <Representation bandwidth="10000" id="%s" width="160" height="90">
        <EssentialProperty schemeIdUri="http://dashif.org/guidelines/thumbnail_tile" value="1x1"/>
      </Representation>
    </AdaptationSet>`, tr.SampleDur, tr.Timescale, tr.StartNumber, tr.ID))
			continue
		}
		if tr.Kind == "text" {
			// stpp track: bundled TTML segments re-timed to SampleDur ticks each (timescale as in the source init)
			ib, err := os.ReadFile(filepath.Join(bundled, tr.CopyFrom, "init.mp4"))
			if err != nil {
				return err
			}
			if err := os.WriteFile(filepath.Join(dir, tr.ID, "init.mp4"), ib, 0644); err != nil {
				return err
			}
			for i := range tr.SegSamples {
				raw, err := os.ReadFile(filepath.Join(bundled, tr.CopyFrom, fmt.Sprintf("%d.m4s", i+1)))
				if err != nil {
					return err
				}
				f, err := mp4.DecodeFile(bytes.NewReader(raw))
				if err != nil || len(f.Segments) != 1 || len(f.Segments[0].Fragments) != 1 {
					return fmt.Errorf("text source segment %d: %v", i+1, err)
				}
				seg := f.Segments[0]
				traf := seg.Fragments[0].Moof.Traf
				traf.Tfdt.SetBaseMediaDecodeTime(uint64(i) * uint64(tr.SampleDur))
				if traf.Tfhd.HasDefaultSampleDuration() {
					traf.Tfhd.DefaultSampleDuration = tr.SampleDur
				}
				if traf.Trun.HasSampleDuration() {
					traf.Trun.Samples[0].Dur = tr.SampleDur
				}
				seg.Fragments[0].Moof.Mfhd.SequenceNumber = uint32(i + 1)
				sw := bits.NewFixedSliceWriter(int(seg.Size()))
				if err := seg.EncodeSW(sw); err != nil {
					return err
				}
				if err := os.WriteFile(filepath.Join(dir, tr.ID, fmt.Sprintf("%d.m4s", tr.StartNumber+i)), sw.Bytes(), 0644); err != nil {
					return err
				}
			}
			asXML = append(asXML, fmt.Sprintf(`    <AdaptationSet contentType="text" mimeType="application/mp4" lang="sv" segmentAlignment="true" startWithSAP="1">
      <Role schemeIdUri="urn:mpeg:dash:role:2011" value="subtitle"/>
      <SegmentTemplate media="$RepresentationID$/$Number$.m4s" initialization="$RepresentationID$/init.mp4" timescale="%d" duration="%d" startNumber="%d"/>
      <Representation id="%s" bandwidth="10000" codecs="stpp"/>
    </AdaptationSet>`, tr.Timescale, tr.SampleDur, tr.StartNumber, tr.ID))
			continue
		}
		initFrom := tr.InitFrom
		if initFrom == "" {
			if tr.Kind == "video" {
				initFrom = "testpic_2s/V300/init.mp4"
			} else {
				initFrom = "testpic_2s/A48/init.mp4"
			}
		}
		ib, trackID, err := restampInit(filepath.Join(bundled, initFrom), tr.Timescale)
		if err != nil {
			return err
		}
		if err := os.WriteFile(filepath.Join(dir, tr.ID, "init.mp4"), ib, 0644); err != nil {
			return err
		}
		for i, n := range tr.SegSamples {
			b, err := genSegment(g.Name, tr, trackID, i, uint32(i+1), t, n)
			if err != nil {
				return err
			}
			var fn string
			if tr.UseTime {
				fn = fmt.Sprintf("%d.m4s", t)
			} else {
				fn = fmt.Sprintf("%d.m4s", tr.StartNumber+i)
			}
			if err := os.WriteFile(filepath.Join(dir, tr.ID, fn), b, 0644); err != nil {
				return err
			}
			if i == 0 {
				tl = append(tl, fmt.Sprintf(`<S t="%d" d="%d"/>`, t, uint64(n)*uint64(tr.SampleDur)))
			} else {
				tl = append(tl, fmt.Sprintf(`<S d="%d"/>`, uint64(n)*uint64(tr.SampleDur)))
			}
			t += uint64(n) * uint64(tr.SampleDur)
		}
		if tr.Kind == "video" && totalMS == 0 {
			totalMS = (t - tr.FirstTime) * 1000 / uint64(tr.Timescale)
		}
		codecs := tr.Codecs
		mime, extra := "video/mp4", `width="640" height="360"`
		if tr.Kind == "audio" {
			mime, extra = "audio/mp4", `audioSamplingRate="48000"`
			if codecs == "" {
				codecs = "mp4a.40.2"
			}
		} else if codecs == "" {
			codecs = "avc1.64001e"
		}
		var st string
		if tr.UseTime {
			st = fmt.Sprintf(`<SegmentTemplate media="$RepresentationID$/$Time$.m4s" initialization="$RepresentationID$/init.mp4" timescale="%d"><SegmentTimeline>%s</SegmentTimeline></SegmentTemplate>`, tr.Timescale, strings.Join(tl, ""))
		} else {
			en := ""
			if tr.EndNumber {
				en = fmt.Sprintf(` endNumber="%d"`, tr.StartNumber+len(tr.SegSamples)-1)
			}
			nominal := uint64(tr.SegSamples[0]) * uint64(tr.SampleDur)
			if tr.Kind == "audio" && videoNominalNum > 0 {
				// like real packagers: the audio template carries the video's nominal segment duration (segment alignment)
				nominal = videoNominalNum * uint64(tr.Timescale) / videoNominalDen
			}
			st = fmt.Sprintf(`<SegmentTemplate media="$RepresentationID$/$Number$.m4s" initialization="$RepresentationID$/init.mp4" timescale="%d" duration="%d" startNumber="%d"%s/>`, tr.Timescale, nominal, tr.StartNumber, en)
		}
		lang := ""
		if tr.Kind == "audio" {
			lang = ` lang="en"`
		}
		asXML = append(asXML, fmt.Sprintf(`    <AdaptationSet contentType="%s" mimeType="%s"%s segmentAlignment="true" startWithSAP="1">
      %s
      <Representation id="%s" bandwidth="300000" codecs="%s" %s/>
    </AdaptationSet>`, tr.Kind, mime, lang, st, tr.ID, codecs, extra))
	}
	mpd := fmt.Sprintf(`<?xml version="1.0" encoding="UTF-8"?>
<MPD xmlns="urn:mpeg:dash:schema:mpd:2011" profiles="urn:mpeg:dash:profile:isoff-live:2011" type="static" mediaPresentationDuration="PT%d.%03dS" minBufferTime="PT2S">
  <Period id="p0" start="PT0S">
%s
  </Period>
</MPD>
`, totalMS/1000, totalMS%1000, strings.Join(asXML, "\n"))
	return os.WriteFile(filepath.Join(dir, "gen.mpd"), []byte(mpd), 0644)
}

// StandardGenAssets is the fixed set of generated layouts used by the monitors.
func StandardGenAssets() []GenAsset {
	rep := func(n, k int) []int {
		o := make([]int, k)
		for i := range o {
			o[i] = n
		}
		return o
	}
	return []GenAsset{
		// 1001-based irregular video (2.002/1.001/3.003 s = 6.006 s loop) + shorter AAC, $Time$
		{Name: "gen/irr1001", Tracks: []GenTrack{
			{ID: "v", Kind: "video", Timescale: 24000, SampleDur: 1001, SegSamples: []int{48, 24, 72}, UseTime: true},
			{ID: "a", Kind: "audio", Timescale: 48000, SampleDur: 1024, SegSamples: []int{94, 94, 93}, UseTime: true}}},
		// single-segment loop, timescale 1000, $Number$ startNumber 7
		{Name: "gen/one", Tracks: []GenTrack{
			{ID: "v", Kind: "video", Timescale: 1000, SampleDur: 40, SegSamples: []int{48}, StartNumber: 7},
			{ID: "a", Kind: "audio", Timescale: 48000, SampleDur: 1024, SegSamples: []int{90}, StartNumber: 7}}},
		// sub-second segments 0.96 s x 5 at 12800, audio longer than video loop, two video reps
		{Name: "gen/sub", Tracks: []GenTrack{
			{ID: "v1", Kind: "video", Timescale: 12800, SampleDur: 512, SegSamples: rep(24, 5), EndNumber: true},
			{ID: "v2", Kind: "video", Timescale: 12800, SampleDur: 512, SegSamples: rep(24, 5), EndNumber: true, Frags: 2},
			{ID: "a", Kind: "audio", Timescale: 48000, SampleDur: 1024, SegSamples: rep(46, 5), EndNumber: true},
			{ID: "th", Kind: "image", Timescale: 1000, SampleDur: 960, SegSamples: rep(1, 5)}}},
		// alternating 1.92 / 3.84 s at 90000, 12 segments, AC-3-like 1536 frame audio on its own grid, $Time$
		{Name: "gen/alt12", Tracks: []GenTrack{
			{ID: "v", Kind: "video", Timescale: 90000, SampleDur: 3600, SegSamples: []int{48, 96, 48, 96, 48, 96, 48, 96, 48, 96, 48, 96}, UseTime: true},
			{ID: "a", Kind: "audio", Timescale: 48000, SampleDur: 1024, SegSamples: rep(135, 12), UseTime: true}}},
		// $Number$ asset with varying segment durations 2 / 1 / 3 s, timescale 1000
		{Name: "gen/numvar", Tracks: []GenTrack{
			{ID: "v", Kind: "video", Timescale: 1000, SampleDur: 40, SegSamples: []int{50, 25, 75}},
			{ID: "a", Kind: "audio", Timescale: 48000, SampleDur: 1024, SegSamples: []int{94, 47, 140}}}},
		// 29.97-style 2.002 s x 4 (loop 8.008 s, not a whole number of seconds) with an stpp track re-timed to 2002 ms
		{Name: "gen/ttml", Tracks: []GenTrack{
			{ID: "v", Kind: "video", Timescale: 30000, SampleDur: 1001, SegSamples: rep(60, 4)},
			{ID: "a", Kind: "audio", Timescale: 48000, SampleDur: 1024, SegSamples: []int{94, 94, 94, 93}},
			{ID: "sub", Kind: "text", Timescale: 1000, SampleDur: 2002, SegSamples: rep(1, 4), CopyFrom: "testpic_2s/imsc1_txt_sv"}}},
		// 3.2 s segments at 15360 (non-whole-second boundaries), $Number$, 30000/1001-free
		{Name: "gen/s32", Tracks: []GenTrack{
			{ID: "v", Kind: "video", Timescale: 15360, SampleDur: 512, SegSamples: rep(96, 4)},
			{ID: "a", Kind: "audio", Timescale: 48000, SampleDur: 1024, SegSamples: rep(150, 4)}}},
	}
}

// WriteStandardGenAssets writes all standard layouts under root.
func WriteStandardGenAssets(root, bundled string) error {
	for _, g := range StandardGenAssets() {
		if err := g.Write(root, bundled); err != nil {
			return fmt.Errorf("%s: %w", g.Name, err)
		}
	}
	return nil
}

// WritePreEncrypted writes a pre-encrypted (cenc) copy of a bundled $Number$ asset (video+audio reps) under root/name.
// The copy is made with mp4ff's InitProtect/EncryptFragment from the bundled clear files.
func WritePreEncrypted(root, bundled, name, srcAsset, srcMPD string, reps []string, key, kid, iv []byte) error {
	dir := filepath.Join(root, name)
	if err := os.MkdirAll(dir, 0755); err != nil {
		return err
	}
	mpdRaw, err := os.ReadFile(filepath.Join(bundled, srcAsset, srcMPD))
	if err != nil {
		return err
	}
	if err := os.WriteFile(filepath.Join(dir, "gen.mpd"), mpdRaw, 0644); err != nil {
		return err
	}
	kidUUID, err := mp4.NewUUIDFromHex(fmt.Sprintf("%x", kid))
	if err != nil {
		return err
	}
	for _, rep := range reps {
		src := filepath.Join(bundled, srcAsset, rep)
		if err := os.MkdirAll(filepath.Join(dir, rep), 0755); err != nil {
			return err
		}
		ib, err := os.ReadFile(filepath.Join(src, "init.mp4"))
		if err != nil {
			return err
		}
		fi, err := mp4.DecodeFile(bytes.NewReader(ib))
		if err != nil || fi.Init == nil {
			return fmt.Errorf("init %s: %v", rep, err)
		}
		ipd, err := mp4.InitProtect(fi.Init, key, iv, "cenc", kidUUID, nil)
		if err != nil {
			return fmt.Errorf("InitProtect %s: %w", rep, err)
		}
		var ob bytes.Buffer
		if err := fi.Init.Encode(&ob); err != nil {
			return err
		}
		if err := os.WriteFile(filepath.Join(dir, rep, "init.mp4"), ob.Bytes(), 0644); err != nil {
			return err
		}
		ents, _ := os.ReadDir(src)
		for _, e := range ents {
			if !strings.HasSuffix(e.Name(), ".m4s") {
				continue
			}
			sb, err := os.ReadFile(filepath.Join(src, e.Name()))
			if err != nil {
				return err
			}
			fs, err := mp4.DecodeFile(bytes.NewReader(sb))
			if err != nil {
				return err
			}
			var out bytes.Buffer
			for _, sg := range fs.Segments {
				for _, fr := range sg.Fragments {
					if err := mp4.EncryptFragment(fr, key, iv, ipd); err != nil {
						return fmt.Errorf("EncryptFragment %s/%s: %w", rep, e.Name(), err)
					}
				}
				if err := sg.Encode(&out); err != nil {
					return err
				}
			}
			if err := os.WriteFile(filepath.Join(dir, rep, e.Name()), out.Bytes(), 0644); err != nil {
				return err
			}
		}
	}
	return nil
}
