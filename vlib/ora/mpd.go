package ora

import (
	"encoding/xml"
	"fmt"
	"math/big"
	"regexp"
	"strconv"
	"strings"
	"time"
)

// ---------- independent reader of served (live) MPDs ----------

type MS struct {
	T *uint64 `xml:"t,attr"`
	D uint64  `xml:"d,attr"`
	R int     `xml:"r,attr"`
}

type MTemplate struct {
	Media       string  `xml:"media,attr"`
	Init        string  `xml:"initialization,attr"`
	Timescale   *uint64 `xml:"timescale,attr"`
	Duration    *uint64 `xml:"duration,attr"`
	StartNumber *uint64 `xml:"startNumber,attr"`
	EndNumber   *uint64 `xml:"endNumber,attr"`
	PTO         uint64  `xml:"presentationTimeOffset,attr"`
	ATO         string  `xml:"availabilityTimeOffset,attr"`
	ATC         string  `xml:"availabilityTimeComplete,attr"`
	Timeline    *struct {
		S []MS `xml:"S"`
	} `xml:"SegmentTimeline"`
}

func (t *MTemplate) TS() uint64 {
	if t.Timescale != nil {
		return *t.Timescale
	}
	return 1
}

type MDescriptor struct {
	SchemeIdUri string `xml:"schemeIdUri,attr"`
	Value       string `xml:"value,attr"`
	DefaultKID  string `xml:"default_KID,attr"`
	LaURL       string `xml:"Laurl"`
	LaURL2      string `xml:"laurl"`
}

type MRep struct {
	ID        string `xml:"id,attr"`
	Bandwidth uint64 `xml:"bandwidth,attr"`
	Codecs    string `xml:"codecs,attr"`
	MimeType  string `xml:"mimeType,attr"`
}

type MAS struct {
	ID                 string        `xml:"id,attr"`
	ContentType        string        `xml:"contentType,attr"`
	MimeType           string        `xml:"mimeType,attr"`
	Lang               string        `xml:"lang,attr"`
	Codecs             string        `xml:"codecs,attr"`
	ST                 *MTemplate    `xml:"SegmentTemplate"`
	Reps               []MRep        `xml:"Representation"`
	ContentProtections []MDescriptor `xml:"ContentProtection"`
	InbandEventStreams []MDescriptor `xml:"InbandEventStream"`
	Supplemental       []MDescriptor `xml:"SupplementalProperty"`
	Essential          []MDescriptor `xml:"EssentialProperty"`
	Roles              []MDescriptor `xml:"Role"`
}

type MPeriod struct {
	ID       string   `xml:"id,attr"`
	Start    string   `xml:"start,attr"`
	Duration string   `xml:"duration,attr"`
	BaseURLs []string `xml:"BaseURL"`
	AS       []MAS    `xml:"AdaptationSet"`
}

type MPD struct {
	ID       string    `xml:"id,attr"`
	Type     string    `xml:"type,attr"`
	AST      string    `xml:"availabilityStartTime,attr"`
	Publish  string    `xml:"publishTime,attr"`
	TSBD     string    `xml:"timeShiftBufferDepth,attr"`
	MUP      string    `xml:"minimumUpdatePeriod,attr"`
	MPDur    string    `xml:"mediaPresentationDuration,attr"`
	BaseURLs []string  `xml:"BaseURL"`
	Location []string  `xml:"Location"`
	Periods  []MPeriod `xml:"Period"`
	Patch    []struct {
		TTL   string `xml:"ttl,attr"`
		Value string `xml:",chardata"`
	} `xml:"PatchLocation"`
	UTCTimings []MDescriptor `xml:"UTCTiming"`
}

func ParseMPD(b []byte) (*MPD, error) {
	var m MPD
	if err := xml.Unmarshal(b, &m); err != nil {
		return nil, err
	}
	return &m, nil
}

var durRe = regexp.MustCompile(`^P(?:(\d+)D)?T(?:(\d+)H)?(?:(\d+)M)?(?:(\d+)(?:\.(\d+))?S)?$`)

// DurMS parses an xs:duration (the subset livesim2 emits) into milliseconds (exact for <= 3 fraction digits).
func DurMS(s string) (int64, bool) {
	if s == "" {
		return 0, false
	}
	m := durRe.FindStringSubmatch(s)
	if m == nil {
		return 0, false
	}
	atoi := func(x string) int64 { v, _ := strconv.ParseInt(x, 10, 64); return v }
	ms := ((atoi(m[1])*24+atoi(m[2]))*60+atoi(m[3]))*60000 + atoi(m[4])*1000
	if m[5] != "" {
		f := (m[5] + "000")[:3]
		ms += atoi(f)
	}
	return ms, true
}

// TimeMS parses an xs:dateTime into ms since epoch.
func TimeMS(s string) (int64, bool) {
	for _, layout := range []string{"2006-01-02T15:04:05.999999999Z07:00", "2006-01-02T15:04:05Z", time.RFC3339Nano, time.RFC3339} {
		if t, err := time.Parse(layout, s); err == nil {
			return t.UnixMilli(), true
		}
	}
	return 0, false
}

// Decl is one segment an MPD declares.
type Decl struct {
	Period string
	PStart int64 // Period@start in ms
	ASIdx  int
	CType  string
	Rep    string
	URL    string // relative media URL (BaseURL not applied)
	Init   string
	Nr     int64 // -1 if the MPD does not fix the number
	T, D   uint64
	TS     uint64
	PTO    uint64
	FromTL bool
}

func ctypeOfMAS(as *MAS) string {
	if as.ContentType != "" {
		return as.ContentType
	}
	switch as.MimeType {
	case "video/mp4":
		return "video"
	case "audio/mp4":
		return "audio"
	case "application/mp4":
		return "text"
	case "image/jpeg":
		return "image"
	}
	return ""
}

func fillTmpl(t string, rep MRep, nr int64, tm uint64) string {
	u := strings.ReplaceAll(t, "$RepresentationID$", rep.ID)
	u = strings.ReplaceAll(u, "$Bandwidth$", strconv.FormatUint(rep.Bandwidth, 10))
	u = strings.ReplaceAll(u, "$Number$", strconv.FormatInt(nr, 10))
	u = strings.ReplaceAll(u, "$Time$", strconv.FormatUint(tm, 10))
	return u
}

// TimelineDecls expands every SegmentTimeline of the MPD.
func (m *MPD) TimelineDecls() []Decl {
	var out []Decl
	for _, p := range m.Periods {
		ps, _ := DurMS(p.Start)
		for ai := range p.AS {
			as := &p.AS[ai]
			st := as.ST
			if st == nil || st.Timeline == nil {
				continue
			}
			for _, r := range as.Reps {
				var t uint64
				nr := int64(-1)
				if st.StartNumber != nil {
					nr = int64(*st.StartNumber)
				} else if strings.Contains(st.Media, "$Number$") {
					nr = 1
				}
				for _, s := range st.Timeline.S {
					if s.T != nil {
						t = *s.T
					}
					for i := 0; i <= s.R; i++ {
						out = append(out, Decl{p.ID, ps, ai, ctypeOfMAS(as), r.ID, fillTmpl(st.Media, r, nr, t), fillTmpl(st.Init, r, 0, 0), nr, t, s.D, st.TS(), st.PTO, true})
						t += s.D
						if nr >= 0 {
							nr++
						}
					}
				}
			}
		}
	}
	return out
}

// ATOms returns availabilityTimeOffset in ms (inf=true for INF).
func (t *MTemplate) ATOms() (ms int64, inf bool) {
	if t.ATO == "" {
		return 0, false
	}
	if strings.EqualFold(t.ATO, "INF") {
		return 0, true
	}
	f, ok := new(big.Rat).SetString(t.ATO)
	if !ok {
		return 0, false
	}
	f.Mul(f, big.NewRat(1000, 1))
	n := new(big.Int).Quo(f.Num(), f.Denom())
	return n.Int64(), false
}

// NumberDecls evaluates SegmentTemplate@duration templates by the DASH rules at instant nowMS:
// segment k (k>=0) of a period covers presentation time [k*d, (k+1)*d)/ts after Period@start; it is available when
// AST + PeriodStart + (k+1)*d/ts - ato <= now, and inside the time-shift window when its end >= now - tsbd
// (a segment that ended before the window start need not be served). next = first not-yet-available one.
func (m *MPD) NumberDecls(nowMS int64) (avail []Decl, next []Decl, err error) {
	ast, ok := TimeMS(m.AST)
	if !ok {
		return nil, nil, fmt.Errorf("bad AST %q", m.AST)
	}
	tsbd, hasTsbd := DurMS(m.TSBD)
	for pi, p := range m.Periods {
		ps, _ := DurMS(p.Start)
		pEnd := int64(-1)
		if pi+1 < len(m.Periods) {
			pEnd, _ = DurMS(m.Periods[pi+1].Start)
		}
		for ai := range p.AS {
			as := &p.AS[ai]
			st := as.ST
			if st == nil || st.Timeline != nil || st.Duration == nil {
				continue
			}
			d := *st.Duration
			ts := st.TS()
			sn := int64(1)
			if st.StartNumber != nil {
				sn = int64(*st.StartNumber)
			}
			atoMS, inf := st.ATOms()
			// end of segment k in ms after AST+ps: ceil(1000*(k+1)*d/ts)
			endMS := func(k int64) int64 {
				num := uint64(k+1) * d * 1000
				v := int64(num / ts)
				if num%ts != 0 {
					v++
				}
				return v
			}
			startMSfloor := func(k int64) int64 { return int64(uint64(k) * d * 1000 / ts) }
			rel := nowMS - ast - ps
			if rel < 0 {
				continue
			}
			// newest available k
			var kmax int64
			if inf {
				kmax = int64(uint64(rel)*ts/(d*1000)) + 3 // a few ahead
			} else {
				kmax = int64(uint64(rel+atoMS)*ts/(d*1000)) + 1
				for kmax >= 0 && endMS(kmax)-atoMS > rel {
					kmax--
				}
			}
			kmin := int64(0)
			if hasTsbd {
				w := rel - tsbd
				if w > 0 {
					kmin = int64(uint64(w) * ts / (d * 1000))
					for kmin > 0 && endMS(kmin-1) > w {
						kmin--
					}
					for endMS(kmin) <= w {
						kmin++
					}
				}
			}
			for _, r := range as.Reps {
				mk := func(k int64) Decl {
					return Decl{p.ID, ps, ai, ctypeOfMAS(as), r.ID, fillTmpl(st.Media, r, sn+k, st.PTO+uint64(k)*d), fillTmpl(st.Init, r, 0, 0), sn + k, st.PTO + uint64(k)*d, d, ts, st.PTO, false}
				}
				for k := kmin; k <= kmax; k++ {
					if pEnd >= 0 && startMSfloor(k)+ps >= pEnd {
						break
					}
					avail = append(avail, mk(k))
				}
				if !inf && (pEnd < 0 || startMSfloor(kmax+1)+ps < pEnd) {
					next = append(next, mk(kmax+1))
				}
			}
		}
	}
	return
}
