package ora

import "fmt"

// ---------- independent SCTE-35 splice_info_section reader (splice_insert only) ----------

type SpliceInfo struct {
	TableID        byte
	SectionLength  int
	Protocol       byte
	Encrypted      bool
	PtsAdjustment  uint64
	Tier           uint16
	CmdLength      int
	CmdType        byte
	EventID        uint32
	Cancel         bool
	OutOfNetwork   bool
	ProgramSplice  bool
	DurationFlag   bool
	Immediate      bool
	TimeSpecified  bool
	PtsTime        uint64
	AutoReturn     bool
	BreakDuration  uint64
	UniqueProgram  uint16
	AvailNum       byte
	AvailsExpected byte
	DescLoopLength int
	CRC            uint32
	CRCValid       bool
}

type bitr struct {
	b   []byte
	pos int // bit position
	err error
}

func (r *bitr) u(n int) uint64 {
	var v uint64
	for i := 0; i < n; i++ {
		byteI := r.pos >> 3
		if byteI >= len(r.b) {
			r.err = fmt.Errorf("read past end at bit %d", r.pos)
			return 0
		}
		bit := (r.b[byteI] >> (7 - uint(r.pos&7))) & 1
		v = v<<1 | uint64(bit)
		r.pos++
	}
	return v
}

// CRC32MPEG2 computes CRC-32/MPEG-2 (poly 0x04C11DB7, init 0xFFFFFFFF, no reflection, no final xor).
func CRC32MPEG2(b []byte) uint32 {
	crc := uint32(0xFFFFFFFF)
	for _, x := range b {
		crc ^= uint32(x) << 24
		for i := 0; i < 8; i++ {
			if crc&0x80000000 != 0 {
				crc = crc<<1 ^ 0x04C11DB7
			} else {
				crc <<= 1
			}
		}
	}
	return crc
}

// ParseSpliceInfo walks a splice_info_section carrying a splice_insert command.
func ParseSpliceInfo(b []byte) (*SpliceInfo, error) {
	r := &bitr{b: b}
	s := &SpliceInfo{}
	s.TableID = byte(r.u(8))
	r.u(1) // section_syntax_indicator
	r.u(1) // private_indicator
	r.u(2) // sap_type / reserved
	s.SectionLength = int(r.u(12))
	s.Protocol = byte(r.u(8))
	s.Encrypted = r.u(1) == 1
	r.u(6) // encryption_algorithm
	s.PtsAdjustment = r.u(33)
	r.u(8) // cw_index
	s.Tier = uint16(r.u(12))
	s.CmdLength = int(r.u(12))
	s.CmdType = byte(r.u(8))
	if r.err != nil {
		return nil, r.err
	}
	if s.CmdType != 5 {
		return s, fmt.Errorf("splice_command_type %d, not splice_insert", s.CmdType)
	}
	cmdStart := r.pos
	s.EventID = uint32(r.u(32))
	s.Cancel = r.u(1) == 1
	r.u(7)
	if !s.Cancel {
		s.OutOfNetwork = r.u(1) == 1
		s.ProgramSplice = r.u(1) == 1
		s.DurationFlag = r.u(1) == 1
		s.Immediate = r.u(1) == 1
		r.u(4)
		if s.ProgramSplice && !s.Immediate {
			s.TimeSpecified = r.u(1) == 1
			if s.TimeSpecified {
				r.u(6)
				s.PtsTime = r.u(33)
			} else {
				r.u(7)
			}
		}
		if !s.ProgramSplice {
			return s, fmt.Errorf("component splice not supported by this reader")
		}
		if s.DurationFlag {
			s.AutoReturn = r.u(1) == 1
			r.u(6)
			s.BreakDuration = r.u(33)
		}
		s.UniqueProgram = uint16(r.u(16))
		s.AvailNum = byte(r.u(8))
		s.AvailsExpected = byte(r.u(8))
	}
	if r.err != nil {
		return nil, r.err
	}
	if s.CmdLength != 0xFFF && (r.pos-cmdStart)/8 != s.CmdLength {
		return s, fmt.Errorf("splice_command_length %d but command is %d bytes", s.CmdLength, (r.pos-cmdStart)/8)
	}
	s.DescLoopLength = int(r.u(16))
	r.pos += 8 * s.DescLoopLength
	if r.pos/8+4 > len(b) {
		return s, fmt.Errorf("section truncated")
	}
	crcPos := r.pos / 8
	s.CRC = uint32(r.u(32))
	if r.err != nil {
		return nil, r.err
	}
	if s.SectionLength != crcPos+4-3 {
		return s, fmt.Errorf("section_length %d but section is %d bytes after the length field", s.SectionLength, crcPos+4-3)
	}
	if crcPos+4 != len(b) {
		return s, fmt.Errorf("%d trailing bytes after CRC", len(b)-crcPos-4)
	}
	s.CRCValid = CRC32MPEG2(b[:crcPos]) == s.CRC
	return s, nil
}
