// Package ora holds the independent oracles shared by the livesim2 monitors.
// It never imports livesim2 code. Trusted base: mp4ff, encoding/xml, the Go runtime.
package ora

import (
	"bytes"
	"encoding/xml"
	"fmt"
	"hash/fnv"
	"os"
	"path/filepath"
	"sort"
	"strconv"
	"strings"

	"github.com/Eyevinn/mp4ff/bits"
	"github.com/Eyevinn/mp4ff/mp4"
)

// ---------- VoD truth table ----------

type Sample struct {
	Dur   uint32
	Size  uint32
	Flags uint32
	Cto   int32
	Hash  uint64
}

type Seg struct {
	Idx     int
	Start   uint64 // VoD decode time of first sample (media timescale)
	End     uint64
	File    string
	VodNr   int // number in the VoD file name (Number templates), else 0
	Samples []Sample
	Data    [][]byte // sample payloads (kept for small assets)
	Raw     []byte   // whole file (thumbnails)
	Emsgs   int
}

func (s Seg) Dur() uint64 { return s.End - s.Start }

type Rep struct {
	ID          string
	ContentType string // video audio text image
	Codecs      string
	Timescale   uint64
	InitPath    string // relative to asset dir
	MediaTmpl   string // with $Time$ / $Number$
	UsesTime    bool
	StartNumber int
	Segs        []Seg
	Trex        *mp4.TrexBox
	InitRaw     []byte
	SampleDur   uint32 // constant sample duration (0 if not constant)
	ASIndex     int
}

func (r *Rep) N() int { return len(r.Segs) }
func (r *Rep) Dur() uint64 {
	if len(r.Segs) == 0 {
		return 0
	}
	return r.Segs[len(r.Segs)-1].End - r.Segs[0].Start
}

type Asset struct {
	Root    string // vod root
	Path    string // asset path relative to root
	MPDName string
	Reps    map[string]*Rep
	RepIDs  []string // in MPD order
	Ref     *Rep
	LoopMS  int64
}

func hash(b []byte) uint64 { h := fnv.New64a(); h.Write(b); return h.Sum64() }

type xmlS struct {
	T *uint64 `xml:"t,attr"`
	D uint64  `xml:"d,attr"`
	R int     `xml:"r,attr"`
}
type xmlST struct {
	Media       string  `xml:"media,attr"`
	Init        string  `xml:"initialization,attr"`
	Timescale   *uint64 `xml:"timescale,attr"`
	Duration    *uint64 `xml:"duration,attr"`
	StartNumber *int    `xml:"startNumber,attr"`
	EndNumber   *int    `xml:"endNumber,attr"`
	Timeline    *struct {
		S []xmlS `xml:"S"`
	} `xml:"SegmentTimeline"`
}
type xmlRep struct {
	ID        string `xml:"id,attr"`
	Bandwidth string `xml:"bandwidth,attr"`
	Codecs    string `xml:"codecs,attr"`
	MimeType  string `xml:"mimeType,attr"`
}
type xmlAS struct {
	ContentType string   `xml:"contentType,attr"`
	MimeType    string   `xml:"mimeType,attr"`
	Codecs      string   `xml:"codecs,attr"`
	ST          *xmlST   `xml:"SegmentTemplate"`
	Reps        []xmlRep `xml:"Representation"`
}
type xmlVodMPD struct {
	Periods []struct {
		AS []xmlAS `xml:"AdaptationSet"`
	} `xml:"Period"`
}

func ctypeOf(as xmlAS) string {
	if as.ContentType != "" {
		return as.ContentType
	}
	mt := as.MimeType
	if mt == "" && len(as.Reps) > 0 {
		mt = as.Reps[0].MimeType
	}
	switch mt {
	case "video/mp4":
		return "video"
	case "audio/mp4":
		return "audio"
	case "application/mp4":
		return "text"
	case "image/jpeg":
		return "image"
	}
	c := as.Codecs
	if c == "" && len(as.Reps) > 0 {
		c = as.Reps[0].Codecs
	}
	switch {
	case strings.HasPrefix(c, "avc"), strings.HasPrefix(c, "hev"), strings.HasPrefix(c, "hvc"):
		return "video"
	case strings.HasPrefix(c, "mp4a"), strings.HasPrefix(c, "ac-3"), strings.HasPrefix(c, "ec-3"):
		return "audio"
	case strings.HasPrefix(c, "stpp"), strings.HasPrefix(c, "wvtt"):
		return "text"
	}
	return ""
}

// LoadAsset parses the static MPD and walks every media file of every representation.
func LoadAsset(root, assetPath, mpdName string, keepData bool) (*Asset, error) {
	dir := filepath.Join(root, assetPath)
	raw, err := os.ReadFile(filepath.Join(dir, mpdName))
	if err != nil {
		return nil, err
	}
	var m xmlVodMPD
	if err := xml.Unmarshal(raw, &m); err != nil {
		return nil, err
	}
	if len(m.Periods) != 1 {
		return nil, fmt.Errorf("%d periods", len(m.Periods))
	}
	a := &Asset{Root: root, Path: assetPath, MPDName: mpdName, Reps: map[string]*Rep{}}
	for ai, as := range m.Periods[0].AS {
		if as.ST == nil {
			return nil, fmt.Errorf("no SegmentTemplate")
		}
		ct := ctypeOf(as)
		for _, xr := range as.Reps {
			r := &Rep{ID: xr.ID, ContentType: ct, Codecs: xr.Codecs, ASIndex: ai, StartNumber: 1}
			if r.Codecs == "" {
				r.Codecs = as.Codecs
			}
			repl := func(s string) string {
				s = strings.ReplaceAll(s, "$RepresentationID$", xr.ID)
				return strings.ReplaceAll(s, "$Bandwidth$", xr.Bandwidth)
			}
			r.InitPath = repl(as.ST.Init)
			r.MediaTmpl = repl(as.ST.Media)
			r.UsesTime = strings.Contains(r.MediaTmpl, "$Time$")
			if as.ST.StartNumber != nil {
				r.StartNumber = *as.ST.StartNumber
			}
			if err := loadRep(dir, r, as.ST, keepData); err != nil {
				return nil, fmt.Errorf("rep %s: %w", r.ID, err)
			}
			a.Reps[r.ID] = r
			a.RepIDs = append(a.RepIDs, r.ID)
		}
	}
	ids := append([]string{}, a.RepIDs...)
	sort.Strings(ids)
	for _, want := range []string{"video", "audio"} {
		for _, id := range ids {
			if a.Ref == nil && a.Reps[id].ContentType == want {
				a.Ref = a.Reps[id]
			}
		}
	}
	if a.Ref == nil {
		return nil, fmt.Errorf("no video/audio rep")
	}
	a.LoopMS = int64(1000 * a.Ref.Dur() / a.Ref.Timescale)
	return a, nil
}

func loadRep(dir string, r *Rep, st *xmlST, keepData bool) error {
	if r.ContentType != "image" {
		ib, err := os.ReadFile(filepath.Join(dir, r.InitPath))
		if err != nil {
			return err
		}
		r.InitRaw = ib
		f, err := mp4.DecodeFile(bytes.NewReader(ib))
		if err != nil || f.Init == nil {
			return fmt.Errorf("init: %v", err)
		}
		r.Timescale = uint64(f.Init.Moov.Trak.Mdia.Mdhd.Timescale)
		if f.Init.Moov.Mvex != nil {
			r.Trex = f.Init.Moov.Mvex.Trex
		}
	}
	name := func(t uint64, nr int) string {
		s := strings.ReplaceAll(r.MediaTmpl, "$Time$", strconv.FormatUint(t, 10))
		return strings.ReplaceAll(s, "$Number$", strconv.Itoa(nr))
	}
	switch {
	case r.ContentType == "image":
		ts := uint64(1)
		if st.Timescale != nil {
			ts = *st.Timescale
		}
		r.Timescale = ts
		d := uint64(0)
		if st.Duration != nil {
			d = *st.Duration
		}
		for nr := r.StartNumber; ; nr++ {
			fn := name(0, nr)
			b, err := os.ReadFile(filepath.Join(dir, fn))
			if err != nil {
				break
			}
			k := uint64(nr - r.StartNumber)
			r.Segs = append(r.Segs, Seg{Idx: len(r.Segs), Start: k * d, End: (k + 1) * d, File: fn, VodNr: nr, Raw: b})
			if st.EndNumber != nil && nr == *st.EndNumber {
				break
			}
		}
	case st.Timeline != nil && r.UsesTime:
		var t uint64
		for _, s := range st.Timeline.S {
			if s.T != nil {
				t = *s.T
			}
			for i := 0; i <= s.R; i++ {
				sg, err := readSeg(dir, name(t, 0), r, keepData)
				if err != nil {
					return err
				}
				sg.Idx = len(r.Segs)
				r.Segs = append(r.Segs, sg)
				t += s.D
			}
		}
	case !r.UsesTime:
		for nr := r.StartNumber; ; nr++ {
			fn := name(0, nr)
			if _, err := os.Stat(filepath.Join(dir, fn)); err != nil {
				break
			}
			sg, err := readSeg(dir, fn, r, keepData)
			if err != nil {
				return err
			}
			sg.Idx = len(r.Segs)
			sg.VodNr = nr
			r.Segs = append(r.Segs, sg)
			if st.EndNumber != nil && nr == *st.EndNumber {
				break
			}
		}
	default:
		return fmt.Errorf("unsupported template")
	}
	if len(r.Segs) == 0 {
		return fmt.Errorf("no segments")
	}
	// constant sample duration?
	var sd uint32
	first := true
	constant := true
	for _, s := range r.Segs {
		for _, x := range s.Samples {
			if first {
				sd, first = x.Dur, false
			} else if x.Dur != sd {
				constant = false
			}
		}
	}
	if constant {
		r.SampleDur = sd
	}
	return nil
}

func readSeg(dir, fn string, r *Rep, keepData bool) (Seg, error) {
	b, err := os.ReadFile(filepath.Join(dir, fn))
	if err != nil {
		return Seg{}, err
	}
	ps, err := ParseSegment(b, r.Trex)
	if err != nil {
		return Seg{}, fmt.Errorf("%s: %w", fn, err)
	}
	sg := Seg{File: fn, Start: ps.Tfdt, End: ps.Tfdt + ps.TotalDur, Samples: ps.Samples, Emsgs: len(ps.Emsgs)}
	if keepData {
		sg.Data = ps.Data
	}
	return sg, nil
}

// ---------- parsed (served or VoD) media segment ----------

type Frag struct {
	Seq      uint32
	Tfdt     uint64
	NSamples int
	Dur      uint64
	TfdtV1   bool
}

type Emsg struct {
	Scheme, Value    string
	Timescale        uint32
	PresentationTime uint64
	Duration         uint32
	ID               uint32
	Version          byte
	Data             []byte
}

type ParsedSeg struct {
	HasStyp  bool
	Brands   []string
	Frags    []Frag
	Seq      uint32 // of first fragment
	Tfdt     uint64 // of first fragment
	TotalDur uint64
	Samples  []Sample
	Data     [][]byte
	Emsgs    []Emsg
	HasSidx  bool
	SidxEPT  uint64
	TopBoxes []string
	Raw      *mp4.File
}

// ParseSegment decodes a media segment; sample defaults are resolved with trex (may be nil).
func ParseSegment(b []byte, trex *mp4.TrexBox) (*ParsedSeg, error) {
	f, err := mp4.DecodeFileSR(bits.NewFixedSliceReader(b))
	if err != nil {
		return nil, err
	}
	ps := &ParsedSeg{Raw: f}
	for _, c := range f.Children {
		ps.TopBoxes = append(ps.TopBoxes, c.Type())
	}
	if len(f.Segments) == 0 {
		return nil, fmt.Errorf("no media segment in data (boxes %v)", ps.TopBoxes)
	}
	first := true
	for _, sg := range f.Segments {
		if sg.Styp != nil {
			ps.HasStyp = true
			ps.Brands = append(ps.Brands, sg.Styp.MajorBrand())
			ps.Brands = append(ps.Brands, sg.Styp.CompatibleBrands()...)
		}
		if sg.Sidx != nil {
			ps.HasSidx = true
			ps.SidxEPT = sg.Sidx.EarliestPresentationTime
		}
		for _, fr := range sg.Fragments {
			if fr.Moof == nil || fr.Moof.Traf == nil || fr.Moof.Traf.Tfdt == nil {
				return nil, fmt.Errorf("fragment without traf/tfdt")
			}
			for _, c := range fr.Children {
				if e, ok := c.(*mp4.EmsgBox); ok {
					ps.Emsgs = append(ps.Emsgs, Emsg{e.SchemeIDURI, e.Value, e.TimeScale, e.PresentationTime, e.EventDuration, e.ID, e.Version, e.MessageData})
				}
			}
			fs, err := fr.GetFullSamples(trex)
			if err != nil {
				return nil, fmt.Errorf("GetFullSamples: %w", err)
			}
			fg := Frag{Seq: fr.Moof.Mfhd.SequenceNumber, Tfdt: fr.Moof.Traf.Tfdt.BaseMediaDecodeTime(), NSamples: len(fs), TfdtV1: fr.Moof.Traf.Tfdt.Version == 1}
			for _, s := range fs {
				fg.Dur += uint64(s.Dur)
				ps.Samples = append(ps.Samples, Sample{s.Dur, s.Size, s.Flags, s.CompositionTimeOffset, hash(s.Data)})
				ps.Data = append(ps.Data, s.Data)
			}
			if first {
				ps.Seq, ps.Tfdt, first = fg.Seq, fg.Tfdt, false
			}
			ps.TotalDur += fg.Dur
			ps.Frags = append(ps.Frags, fg)
		}
	}
	return ps, nil
}

// InitInfo is what the monitors need from a served init segment.
type InitInfo struct {
	Timescale uint64
	Trex      *mp4.TrexBox
	Init      *mp4.InitSegment
	TrackID   uint32
}

func ParseInit(b []byte) (*InitInfo, error) {
	f, err := mp4.DecodeFile(bytes.NewReader(b))
	if err != nil {
		return nil, err
	}
	if f.Init == nil || f.Init.Moov == nil || f.Init.Moov.Trak == nil {
		return nil, fmt.Errorf("no init/moov/trak")
	}
	ii := &InitInfo{Init: f.Init, Timescale: uint64(f.Init.Moov.Trak.Mdia.Mdhd.Timescale), TrackID: f.Init.Moov.Trak.Tkhd.TrackID}
	if f.Init.Moov.Mvex != nil {
		ii.Trex = f.Init.Moov.Mvex.Trex
	}
	return ii, nil
}

// ---------- live timeline of a representation (the statement of C01 as arithmetic) ----------

// LoopTicks is the asset loop duration expressed in the rep's timescale (exact; ok=false if not integral).
func (a *Asset) LoopTicks(r *Rep) (uint64, bool) {
	v := uint64(a.LoopMS) * r.Timescale
	return v / 1000, v%1000 == 0
}

// LiveSeg gives for live index n (counted from availabilityStartTime) the VoD segment and the expected
// decode time  floor(n/N)*loop + VoD start of segment (n mod N)  (relative to AST, in rep timescale).
func (a *Asset) LiveSeg(r *Rep, n int64) (vod *Seg, start, end uint64) {
	N := int64(r.N())
	loop, _ := a.LoopTicks(r)
	w := n / N
	k := n % N
	s := &r.Segs[k]
	return s, uint64(w)*loop + s.Start, uint64(w)*loop + s.End
}

// AvailMS is the first instant (ms, absolute) at which live segment n of rep r is available:
// ceil( 1000*(AST + end/ts - ato) ). atoMS is 1000*ato rounded down (ato values used are multiples of 1 ms).
func (a *Asset) AvailMS(r *Rep, n int64, astS int64, atoMS int64) int64 {
	_, _, end := a.LiveSeg(r, n)
	num := end * 1000
	ms := int64(num / r.Timescale)
	if num%r.Timescale != 0 {
		ms++
	}
	return astS*1000 + ms - atoMS
}

// NewestAvail returns the largest n whose availability instant is <= nowMS (-1 if none).
func (a *Asset) NewestAvail(r *Rep, nowMS, astS, atoMS int64) int64 {
	N := int64(r.N())
	if nowMS < astS*1000 {
		return -1
	}
	// estimate then correct
	est := (nowMS - astS*1000 + atoMS) / a.LoopMS * N
	n := est + N
	for n >= 0 && a.AvailMS(r, n, astS, atoMS) > nowMS {
		n--
	}
	for a.AvailMS(r, n+1, astS, atoMS) <= nowMS {
		n++
	}
	return n
}

// ---------- audio re-segmentation model (C03): frame grid on the absolute audio clock ----------

// GridCeil returns the first multiple of frameDur (audio timescale ats) that is at or after refTime (timescale refTS).
func GridCeil(refTime, refTS, frameDur, ats uint64) uint64 {
	// smallest k with k*frameDur*refTS >= refTime*ats  (exact integer arithmetic; values stay far below 2^64 for the driven range
	// when computed with 128-bit care: use big-free formulation via division first)
	num := mul128div(refTime, ats, refTS) // floor(refTime*ats/refTS), rem tells exactness
	q := num.q / frameDur
	if q*frameDur == num.q && num.r == 0 {
		return q * frameDur
	}
	return (q + 1) * frameDur
}

type qr struct{ q, r uint64 }

// mul128div computes floor(a*b/c) and whether there is a remainder, without overflow.
func mul128div(a, b, c uint64) qr {
	hi, lo := mul64(a, b)
	q, r := div128(hi, lo, c)
	return qr{q, r}
}

// AudioSegTimes returns the expected start and end (audio timescale, relative to AST) of live audio segment n,
// following the reference (video) segment n.
func (a *Asset) AudioSegTimes(ar *Rep, n int64) (start, end uint64) {
	_, vs, ve := a.LiveSeg(a.Ref, n)
	fd := uint64(ar.SampleDur)
	return GridCeil(vs, a.Ref.Timescale, fd, ar.Timescale), GridCeil(ve, a.Ref.Timescale, fd, ar.Timescale)
}
