package ora

import (
	"fmt"
	"regexp"
	"sort"
	"strconv"
	"strings"

	"github.com/beevik/etree"
)

// ---------- independent applier for DASH MPD patches (RFC 5261 subset) ----------

var stepRe = regexp.MustCompile(`^([A-Za-z_][\w.\-:]*)(?:\[(\d+)\]|\[@([\w:\-]+)='([^']*)'\])?$`)

// selectNode resolves an absolute selector to (element, attribute name). attr=="" for element selectors.
func selectNode(root *etree.Element, sel string) (*etree.Element, string, error) {
	if !strings.HasPrefix(sel, "/") {
		return nil, "", fmt.Errorf("selector %q is not absolute", sel)
	}
	steps := splitSteps(sel[1:])
	attr := ""
	if n := len(steps); n > 0 && strings.HasPrefix(steps[n-1], "@") {
		attr = steps[n-1][1:]
		steps = steps[:n-1]
	}
	if len(steps) == 0 {
		return nil, "", fmt.Errorf("empty selector")
	}
	m := stepRe.FindStringSubmatch(steps[0])
	if m == nil || m[1] != root.Tag {
		return nil, "", fmt.Errorf("selector %q does not start at root %s", sel, root.Tag)
	}
	cur := root
	for _, st := range steps[1:] {
		m := stepRe.FindStringSubmatch(st)
		if m == nil {
			return nil, "", fmt.Errorf("unsupported step %q in %q", st, sel)
		}
		var same []*etree.Element
		for _, c := range cur.ChildElements() {
			if c.Tag == m[1] {
				same = append(same, c)
			}
		}
		var next *etree.Element
		switch {
		case m[2] != "":
			i, _ := strconv.Atoi(m[2])
			if i < 1 || i > len(same) {
				return nil, "", fmt.Errorf("%q: %s[%d] but only %d such children", sel, m[1], i, len(same))
			}
			next = same[i-1]
		case m[3] != "":
			var hits []*etree.Element
			for _, c := range same {
				if a := c.SelectAttr(m[3]); a != nil && a.Value == m[4] {
					hits = append(hits, c)
				}
			}
			if len(hits) != 1 {
				return nil, "", fmt.Errorf("%q: %d elements match %s", sel, len(hits), st)
			}
			next = hits[0]
		default:
			if len(same) != 1 {
				return nil, "", fmt.Errorf("%q: %d children named %s (need exactly 1)", sel, len(same), m[1])
			}
			next = same[0]
		}
		cur = next
	}
	return cur, attr, nil
}

// splitSteps splits on '/' outside of [...] predicates (values may contain '/').
func splitSteps(s string) []string {
	var out []string
	depth, start := 0, 0
	inQuote := false
	for i := 0; i < len(s); i++ {
		switch s[i] {
		case '\'':
			inQuote = !inQuote
		case '[':
			if !inQuote {
				depth++
			}
		case ']':
			if !inQuote {
				depth--
			}
		case '/':
			if depth == 0 && !inQuote {
				out = append(out, s[start:i])
				start = i + 1
			}
		}
	}
	return append(out, s[start:])
}

func indexOfChild(parent *etree.Element, c *etree.Element) int {
	for i, t := range parent.Child {
		if e, ok := t.(*etree.Element); ok && e == c {
			return i
		}
	}
	return -1
}

// ApplyPatch applies the operations of patchDoc (root <Patch>) in document order to a copy of mpd and returns the result.
func ApplyPatch(mpd, patchDoc []byte) (*etree.Document, *etree.Element, error) {
	d := etree.NewDocument()
	if err := d.ReadFromBytes(mpd); err != nil {
		return nil, nil, err
	}
	p := etree.NewDocument()
	if err := p.ReadFromBytes(patchDoc); err != nil {
		return nil, nil, fmt.Errorf("patch unparseable: %w", err)
	}
	proot := p.Root()
	if proot == nil || proot.Tag != "Patch" {
		return nil, nil, fmt.Errorf("patch root is not <Patch>")
	}
	root := d.Root()
	for i, op := range proot.ChildElements() {
		sel := op.SelectAttrValue("sel", "")
		el, attr, err := selectNode(root, sel)
		if err != nil {
			return nil, proot, fmt.Errorf("operation %d <%s sel=%q>: %w", i, op.Tag, sel, err)
		}
		switch op.Tag {
		case "replace":
			if attr != "" {
				a := el.SelectAttr(attr)
				if a == nil {
					return nil, proot, fmt.Errorf("operation %d: replace of missing attribute %s", i, sel)
				}
				a.Value = op.Text()
			} else {
				kids := op.ChildElements()
				if len(kids) != 1 {
					return nil, proot, fmt.Errorf("operation %d: replace needs exactly one element", i)
				}
				par := el.Parent()
				if par == nil {
					return nil, proot, fmt.Errorf("operation %d: cannot replace root", i)
				}
				idx := indexOfChild(par, el)
				par.RemoveChildAt(idx)
				par.InsertChildAt(idx, kids[0].Copy())
			}
		case "remove":
			if attr != "" {
				if el.RemoveAttr(attr) == nil {
					return nil, proot, fmt.Errorf("operation %d: remove of missing attribute %s", i, sel)
				}
			} else {
				par := el.Parent()
				if par == nil {
					return nil, proot, fmt.Errorf("operation %d: cannot remove root", i)
				}
				par.RemoveChildAt(indexOfChild(par, el))
			}
		case "add":
			if attr != "" {
				if el.SelectAttr(attr) != nil {
					return nil, proot, fmt.Errorf("operation %d: add of existing attribute %s", i, sel)
				}
				el.CreateAttr(attr, op.Text())
				continue
			}
			if t := op.SelectAttrValue("type", ""); strings.HasPrefix(t, "@") {
				if el.SelectAttr(t[1:]) != nil {
					return nil, proot, fmt.Errorf("operation %d: add of existing attribute %s", i, t)
				}
				el.CreateAttr(t[1:], op.Text())
				continue
			}
			kids := op.ChildElements()
			pos := op.SelectAttrValue("pos", "append")
			switch pos {
			case "prepend":
				for k := len(kids) - 1; k >= 0; k-- {
					el.InsertChildAt(0, kids[k].Copy())
				}
			case "append":
				for _, k := range kids {
					el.AddChild(k.Copy())
				}
			case "before", "after":
				par := el.Parent()
				if par == nil {
					return nil, proot, fmt.Errorf("operation %d: before/after on root", i)
				}
				idx := indexOfChild(par, el)
				if pos == "after" {
					idx++
				}
				for k, kid := range kids {
					par.InsertChildAt(idx+k, kid.Copy())
				}
			default:
				return nil, proot, fmt.Errorf("operation %d: unknown pos %q", i, pos)
			}
		default:
			return nil, proot, fmt.Errorf("operation %d: unknown operation %s", i, op.Tag)
		}
	}
	return d, proot, nil
}

// Canon renders an element tree canonically: attributes sorted, insignificant whitespace dropped.
func Canon(e *etree.Element) string {
	var b strings.Builder
	canon(&b, e, 0)
	return b.String()
}

func canon(b *strings.Builder, e *etree.Element, depth int) {
	b.WriteString(strings.Repeat(" ", depth))
	b.WriteString("<" + e.FullTag())
	attrs := append([]etree.Attr{}, e.Attr...)
	sort.Slice(attrs, func(i, j int) bool { return attrs[i].FullKey() < attrs[j].FullKey() })
	for _, a := range attrs {
		fmt.Fprintf(b, " %s=%q", a.FullKey(), a.Value)
	}
	b.WriteString(">")
	if t := strings.TrimSpace(e.Text()); t != "" {
		b.WriteString(t)
	}
	b.WriteString("\n")
	for _, c := range e.ChildElements() {
		canon(b, c, depth+1)
	}
}

// CanonBytes parses a document and renders its root canonically.
func CanonBytes(x []byte) (string, error) {
	d := etree.NewDocument()
	if err := d.ReadFromBytes(x); err != nil {
		return "", err
	}
	if d.Root() == nil {
		return "", fmt.Errorf("no root")
	}
	return Canon(d.Root()), nil
}

// FirstDiff returns the first differing line of two canonical renderings.
func FirstDiff(a, b string) string {
	la, lb := strings.Split(a, "\n"), strings.Split(b, "\n")
	for i := 0; i < len(la) || i < len(lb); i++ {
		x, y := "<end>", "<end>"
		if i < len(la) {
			x = la[i]
		}
		if i < len(lb) {
			y = lb[i]
		}
		if x != y {
			return fmt.Sprintf("line %d: patched %q vs served %q", i, strings.TrimSpace(x), strings.TrimSpace(y))
		}
	}
	return ""
}
