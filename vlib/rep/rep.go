// Package rep is the reporter used by every monitor: it counts what was observed,
// records violations with a seed-independent signature, and writes crash-safe snapshots
// that the driver (run.py) merges into evidence/<ID>.json.
package rep

import (
	"encoding/json"
	"fmt"
	"math/rand"
	"os"
	"strconv"
	"sync"
	"time"
)

type Violation struct {
	Sig      string `json:"sig"`
	Count    int    `json:"count"`
	Examples []any  `json:"examples"`
}

type snapshot struct {
	Complete     bool             `json:"complete"`
	Evaluations  int64            `json:"evaluations"`
	Classes      map[string]int64 `json:"classes"`
	Counters     map[string]int64 `json:"counters"`
	Inconclusive map[string]int64 `json:"inconclusive"`
	Samples      []any            `json:"samples"`
	Violations   []*Violation     `json:"violations"`
	Rule         string           `json:"rule"`
	Assumptions  []string         `json:"assumptions"`
}

// R is safe for concurrent use.
type R struct {
	ID     string
	Tier   string
	Seed   int64
	Resume int
	Replay string

	mu        sync.Mutex
	s         snapshot
	viol      map[string]*Violation
	out, prog string
	progF     *os.File
	lastFlush time.Time
	// FlushEach makes every Begin() write a snapshot (for monitors whose cases can kill the process).
	FlushEach bool
	maxClass  int
}

func New(id string) *R {
	r := &R{ID: id, Tier: os.Getenv("VERIF_TIER"), out: os.Getenv("VERIF_OUT"), prog: os.Getenv("VERIF_PROGRESS"),
		Replay: os.Getenv("VERIF_REPLAY"), viol: map[string]*Violation{}, maxClass: 200000}
	if r.Tier == "" {
		r.Tier = "quick"
	}
	r.Seed, _ = strconv.ParseInt(os.Getenv("VERIF_SEED"), 10, 64)
	if r.Seed == 0 {
		r.Seed = 1
	}
	r.Resume, _ = strconv.Atoi(os.Getenv("VERIF_RESUME"))
	r.s.Classes = map[string]int64{}
	r.s.Counters = map[string]int64{}
	r.s.Inconclusive = map[string]int64{}
	if r.prog != "" {
		r.progF, _ = os.OpenFile(r.prog, os.O_CREATE|os.O_WRONLY|os.O_APPEND, 0644)
	}
	return r
}

func (r *R) Thorough() bool { return r.Tier == "thorough" }

// Pick returns q for the quick tier and t for the thorough tier.
func (r *R) Pick(q, t int) int {
	if r.Thorough() {
		return t
	}
	return q
}

// Rand returns a PRNG that depends only on (seed, stream).
func (r *R) Rand(stream int64) *rand.Rand {
	return rand.New(rand.NewSource(r.Seed*1000003 + stream))
}

func (r *R) Rule(rule string) { r.mu.Lock(); r.s.Rule = rule; r.mu.Unlock() }
func (r *R) Assume(a string) {
	r.mu.Lock()
	r.s.Assumptions = append(r.s.Assumptions, a)
	r.mu.Unlock()
}

// Begin logs case i before it is run (so that a crash can be attributed to it) and returns
// false when the case has to be skipped because an earlier child already ran it.
func (r *R) Begin(i int, desc string) bool {
	if i < r.Resume {
		return false
	}
	if r.progF != nil {
		fmt.Fprintf(r.progF, "case %d %s\n", i, desc)
	}
	if r.FlushEach {
		r.Flush(false)
	} else if time.Since(r.lastFlush) > 2*time.Second { // throttle only; no verdict depends on it
		r.Flush(false)
	}
	return true
}

func (r *R) Eval(n int) { r.mu.Lock(); r.s.Evaluations += int64(n); r.mu.Unlock() }

// Class records that a comparison was made in equivalence class key (distinct_nontrivial = #keys).
func (r *R) Class(key string) {
	r.mu.Lock()
	if _, ok := r.s.Classes[key]; ok || len(r.s.Classes) < r.maxClass {
		r.s.Classes[key]++
	}
	r.mu.Unlock()
}

func (r *R) Add(counter string, n int64) { r.mu.Lock(); r.s.Counters[counter] += n; r.mu.Unlock() }

func (r *R) Sample(v any) {
	r.mu.Lock()
	if len(r.s.Samples) < 6 {
		r.s.Samples = append(r.s.Samples, v)
	}
	r.mu.Unlock()
}

// SampleEvery keeps v when fewer than 6 samples are stored and the class key was not yet sampled.
func (r *R) Inconclusive(why string) { r.mu.Lock(); r.s.Inconclusive[why]++; r.mu.Unlock() }

// Violation records a refuting observation. sig must not depend on the seed; detail is the witness.
func (r *R) Violation(sig string, detail any) {
	r.mu.Lock()
	v := r.viol[sig]
	if v == nil {
		v = &Violation{Sig: sig}
		r.viol[sig] = v
		r.s.Violations = append(r.s.Violations, v)
	}
	v.Count++
	if len(v.Examples) < 3 {
		v.Examples = append(v.Examples, detail)
	}
	r.mu.Unlock()
}

func (r *R) NViolations() int { r.mu.Lock(); defer r.mu.Unlock(); return len(r.viol) }

func (r *R) Flush(complete bool) {
	r.mu.Lock()
	defer r.mu.Unlock()
	r.lastFlush = time.Now()
	if r.out == "" {
		return
	}
	r.s.Complete = complete
	b, err := json.Marshal(&r.s)
	if err != nil {
		fmt.Fprintln(os.Stderr, "rep: marshal:", err)
		return
	}
	tmp := r.out + ".tmp"
	if err := os.WriteFile(tmp, b, 0644); err == nil {
		_ = os.Rename(tmp, r.out)
	}
}

// Done writes the final snapshot.
func (r *R) Done() { r.Flush(true) }

// Summary is printed by monitors at the end (goes to the child's log).
func (r *R) Summary() string {
	r.mu.Lock()
	defer r.mu.Unlock()
	return fmt.Sprintf("%s: evaluations=%d classes=%d violations(sigs)=%d inconclusive=%d", r.ID, r.s.Evaluations,
		len(r.s.Classes), len(r.viol), len(r.s.Inconclusive))
}
